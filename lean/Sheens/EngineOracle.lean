import Sheens.ES
import Sheens.Wire

/-!
# Executable conclusions of the engine properties, evaluated on the implementation's observations

Each function takes what the *implementation* returned (a `Walked` or a stride)
and decides the conclusion of a property theorem on it.  A `false` is a concrete
failing input.
-/

open Wire

def stateEq (a b : State) : Bool :=
  a.node == b.node &&
    (match a.bs, b.bs with
     | none, none => true
     | some x, some y => canonBs x == canonBs y
     | _, _ => false)

def optStateEq : Option State → Option State → Bool
  | none, none => true
  | some a, some b => stateEq a b
  | _, _ => false

def vListEq (a b : List V) : Bool := a.map canonStr == b.map canonStr

def isPrefixV (a b : List V) : Bool := vListEq a (b.take a.length) && decide (a.length ≤ b.length)

/-- state after a stride -/
def nextState (s : Stride) : State :=
  match s.to with
  | some t => t
  | none => s.frm

def chainOk : List Stride → Bool
  | [] => true
  | [_] => true
  | a :: b :: rest => stateEq (nextState a) b.frm && chainOk (b :: rest)

def nodeIsConsumer (spec : Spec) (n : String) : Bool :=
  match findNode n spec.nodes with
  | some nd => (match nd.branches with | some b => b.type == "message" | none => false)
  | none => false

/-- every permanent binding of `a` is in `b` with the same value -/
def permanentKept (a b : Bs) : Bool :=
  (permanentOf a).all (fun (k, v) => match lookup k b with
    | some w => canonStr v == canonStr w
    | none => false)

/-- the emissions the node's action contributes when run on `bs`: those of a successful execution;
    for a native action returning a partial execution together with an error, those too -/
def actionEmissions (spec : Spec) (st : State) : List V :=
  match findNode st.node spec.nodes with
  | some nd =>
    (match nd.action with
     | some a =>
       let out := execWrap a st.bs
       (match out.exe with | some (_, em) => em | none => [])
     | none => [])
  | none => []

/-- the node's action completes but returns no bindings (`null`): the property speaks about
    actions that "complete and return bindings" -/
def actionReturnsNoBindings (spec : Spec) (st : State) : Bool :=
  match findNode st.node spec.nodes with
  | some nd =>
    (match nd.action with
     | some a =>
       let out := execWrap a st.bs
       out.err.isNone && (match out.exe with | some (none, _) => true | none => true | _ => false)
     | none => false)
  | none => false

def strideValid (spec : Spec) (s : Stride) : Bool :=
  -- a stride that ran the node (not one of the early error returns of `Step`)
  spec.compiled &&
    (match findNode s.frm.node spec.nodes with
     | some n => !(n.action.isNone && n.hasSource) &&
        !(n.action.isSome && (match n.branches with | some b => b.type == "message" | none => false))
     | none => false)

/-- does the node's action fail on these bindings? -/
def actionFails (spec : Spec) (st : State) : Bool :=
  match findNode st.node spec.nodes with
  | some nd => (match nd.action with | some a => (execWrap a st.bs).err.isSome | none => false)
  | none => false

/-- C08 on one stride: the emissions are exactly those of the successfully completed action;
    a failing action contributes nothing (a native action that hands back a partial execution
    together with its error is outside the property: either outcome is accepted) -/
def emitOk (spec : Spec) (frm : State) (s : Stride) : Bool :=
  if !strideValid spec s then s.emitted.isEmpty
  else if actionFails spec frm then s.emitted.isEmpty || vListEq s.emitted (actionEmissions spec frm)
  else vListEq s.emitted (actionEmissions spec frm)

/-- C05 / C07 / C08 / C18 conclusions on a walk observed from the implementation -/
def walkOracles (spec : Spec) (st : State) (msgs : List V) (lim : Nat) (w : Walked) : List (String × Bool) :=
  let consumed := consumedOf w
  let rest := msgs.drop consumed.length
  let pref := isPrefixV consumed msgs
  let remainderOk :=
    match w.stopped with
    | .done => w.remaining.isEmpty
    | _ => vListEq w.remaining rest
  let bounded := decide (w.strides.length ≤ lim)
  let firstFrom := match w.strides with
    | [] => true
    | s :: _ => stateEq s.frm (stateCopy st)
  let final := finalState st w
  let quiescent :=
    match w.stopped with
    | .done =>
      -- no further step possible without a new message
      let o := step spec final none
      (match o.stride with
       | some s => s.to.isNone || (o.err.isSome)   -- an erroring step at the error node stays put
       | none => true) &&
      -- nothing was discarded at a node able to consume
      (rest.isEmpty || !(nodeIsConsumer spec final.node) || rest.all (fun m => match m with | .null => true | _ => false))
    | _ => true
  let permanent := w.strides.all (fun s =>
    match s.to, s.frm.bs with
    | some t, some fb =>
      actionReturnsNoBindings spec s.frm ||
        (match t.bs with | some tb => permanentKept fb tb | none => false)
    | _, _ => true)
  let emitExact := w.strides.all (fun s => emitOk spec s.frm s)
  let errorSurfaced := w.strides.all (fun s =>
    match s.to with
    | some t =>
      if t.node == "error" && s.frm.node != "error" && !(nodeTargetsError spec s.frm.node) then
        (match t.bs with
         | some tb => (lookup "error" tb).isSome && (lookup "lastNode" tb).isSome && (lookup "lastBindings" tb).isSome
         | none => false)
      else true
    | none => true)
  [("prefix", pref), ("remainder", remainderOk), ("bounded", bounded), ("chain", chainOk w.strides),
   ("firstFrom", firstFrom), ("quiescent", quiescent), ("permanent", permanent),
   ("emitExact", emitExact), ("errorSurfaced", errorSurfaced)]
where
  nodeTargetsError (spec : Spec) (n : String) : Bool :=
    match findNode n spec.nodes with
    | some nd => (match nd.branches with
      | some b => b.branches.any (fun br => br.target == "error" || isTargetVar br.target)
      | none => false) || spec.actionErrorNode == "error"
    | none => false

/-- C04 / C07 / C08 / C18 conclusions on one step observed from the implementation -/
def stepOracles (spec : Spec) (st : State) (pending : Option V) (gs : Option Stride) (gerr : Option String) :
    List (String × Bool) :=
  let o := step spec st pending
  -- the documented transition rule, in its executable form
  let rule :=
    match gs, o.stride with
    | none, none => true
    | some g, some m => optStateEq g.to m.to &&
        (match g.consumed, m.consumed with
         | none, none => true
         | some a, some b => canonStr a == canonStr b
         | _, _ => false)
    | _, _ => false
  let errSame := gerr.isSome == o.err.isSome
  let permanent :=
    match gs with
    | some g => (match g.to, st.bs with
      | some t, some fb =>
        actionReturnsNoBindings spec st ||
          (match t.bs with | some tb => permanentKept fb tb | none => false)
      | _, _ => true)
    | none => true
  let emitExact :=
    match gs with
    | some g => emitOk spec (stateCopy st) g
    | none => true
  let messageConsumes :=
    match gs with
    | some g =>
      if nodeIsConsumer spec st.node then
        (match pending, g.consumed with
         | some p, some c => canonStr p == canonStr c
         | none, none => g.to.isNone
         | _, _ => false)
      else g.consumed.isNone
    | none => true
  [("rule", rule), ("errSame", errSame), ("permanent", permanent), ("emitExact", emitExact),
   ("messageConsumes", messageConsumes)]

/-- arms a walk case exercises (for the measured distribution) -/
def walkFeatures (spec : Spec) (_st : State) (msgs : List V) (w : Walked) : List String :=
  let visited := w.strides.map (·.frm.node)
  let nodeHas (f : Node → Bool) := visited.any (fun n => match findNode n spec.nodes with | some nd => f nd | none => false)
  let feats : List (String × Bool) := [
    ("action", nodeHas (fun nd => nd.action.isSome)),
    ("guard", nodeHas (fun nd => match nd.branches with | some b => b.branches.any (·.guard.isSome) | none => false)),
    ("message", nodeHas (fun nd => match nd.branches with | some b => b.type == "message" | none => false)),
    ("bindingsBranching", nodeHas (fun nd => match nd.branches with | some b => b.type != "message" && !b.branches.isEmpty | none => false)),
    ("targetVar", nodeHas (fun nd => match nd.branches with | some b => b.branches.any (fun br => isTargetVar br.target) | none => false)),
    ("errorNode", w.strides.any (fun s => match s.to with | some t => t.node == "error" | none => false)),
    ("actionErrorRouted", w.strides.any (fun s => match s.to with | some t => (match t.bs with | some b => (lookup "actionError" b).isSome | none => false) | none => false)),
    ("emits", w.strides.any (fun s => !s.emitted.isEmpty)),
    ("consumes", w.strides.any (fun s => s.consumed.isSome)),
    ("limited", w.stopped == .limited),
    ("breakpoint", w.stopped == .breakpoint),
    ("discards", w.stopped == .done && decide ((consumedOf w).length < msgs.length)),
    ("unknownNode", visited.any (fun n => (findNode n spec.nodes).isNone)),
    ("permanent", w.strides.any (fun s => match s.frm.bs with | some b => !(permanentOf b).isEmpty | none => false)),
    ("nilBs", w.strides.any (fun s => s.frm.bs.isNone)),
    ("multiStride", decide (w.strides.length > 2))]
  feats.filterMap (fun (n, b) => if b then some n else none)

def stepFeatures (spec : Spec) (st : State) (pending : Option V) (o : StepOut) : List String :=
  let nd := findNode st.node spec.nodes
  let feats : List (String × Bool) := [
    ("action", match nd with | some n => n.action.isSome | none => false),
    ("actionFails", match nd with
      | some n => (match n.action with | some a => (execWrap a st.bs).err.isSome | none => false)
      | none => false),
    ("guard", match nd with
      | some n => (match n.branches with | some b => b.branches.any (·.guard.isSome) | none => false)
      | none => false),
    ("message", nodeIsConsumer spec st.node),
    ("pending", pending.isSome),
    ("taken", match o.stride with | some s => s.to.isSome | none => false),
    ("err", o.err.isSome),
    ("nilBs", st.bs.isNone),
    ("permanent", match st.bs with | some b => !(permanentOf b).isEmpty | none => false),
    ("unknownNode", nd.isNone)]
  feats.filterMap (fun (n, b) => if b then some n else none)
