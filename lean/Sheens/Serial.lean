/-!
# Requests under one lock: a labelled transition system

The mcrew service runs each request (`Process`, `AddMachine`, `RemMachine`) as: take the crew lock,
read the crew, compute (walk the machines, build the new states), write the store and the crew,
release the lock (facts `mcrew_write_under_lock`, `mcrew_write_before_memory`).  Here the request of
thread `i` is a function `ops i : σ → σ` on the shared state (memory and store together; a log of
results can be part of `σ`), and its execution is *not* atomic: acquiring, reading, computing,
writing and releasing are separate steps that interleave freely with the steps of every other
thread.  What makes the outcome that of a sequential order is the lock alone; `Props/C16Serial.lean`
proves it for all interleavings.
-/

namespace Serial

inductive PC (σ : Type) where
  | idle
  | acquired
  | read (x : σ)
  | computed (x : σ)
  | written
  | done

structure St (σ : Type) where
  shared : σ
  lock : Option Nat
  pc : Nat → PC σ
  order : List Nat          -- ghost: the threads in the order in which they took the lock

def upd {α : Type} (f : Nat → α) (i : Nat) (v : α) : Nat → α := fun j => if j = i then v else f j

/-- the requests of `order`, one after the other -/
def seq {σ : Type} (ops : Nat → σ → σ) (init : σ) (order : List Nat) : σ :=
  order.foldl (fun s i => ops i s) init

inductive Step {σ : Type} (ops : Nat → σ → σ) : St σ → St σ → Prop where
  | acquire (s : St σ) (i : Nat) : s.pc i = .idle → s.lock = none →
      Step ops s { s with lock := some i, pc := upd s.pc i .acquired, order := s.order ++ [i] }
  | read (s : St σ) (i : Nat) : s.pc i = .acquired →
      Step ops s { s with pc := upd s.pc i (.read s.shared) }
  | compute (s : St σ) (i : Nat) (x : σ) : s.pc i = .read x →
      Step ops s { s with pc := upd s.pc i (.computed (ops i x)) }
  | write (s : St σ) (i : Nat) (x : σ) : s.pc i = .computed x →
      Step ops s { s with shared := x, pc := upd s.pc i .written }
  | release (s : St σ) (i : Nat) : s.pc i = .written →
      Step ops s { s with lock := none, pc := upd s.pc i .done }

def start {σ : Type} (init : σ) : St σ :=
  { shared := init, lock := none, pc := fun _ => .idle, order := [] }

inductive Reachable {σ : Type} (ops : Nat → σ → σ) (init : σ) : St σ → Prop where
  | start : Reachable ops init (start init)
  | step {s t : St σ} : Reachable ops init s → Step ops s t → Reachable ops init t

end Serial
