/-!
# Values, bindings and string predicates shared by all models

`V` is a Go `interface{}` as the sheens engine sees it.  A JSON object is an
association list; list order stands for Go's map iteration order.  Everything
here is core Lean only (no Mathlib), so the driver links as an executable.
-/

inductive V where
  | null
  | bool (b : Bool)
  | num (q : Rat)
  | str (s : String)
  | arr (xs : List V)
  | obj (kvs : List (String × V))     -- map[string]interface{}
  | int (i : Int)                     -- Go int/int32/int64/float32: coerced by `fudge` at the top of a match call only
  | bobj (kvs : List (String × V))    -- a map whose Go type is match.Bindings
  | other (tag : String)              -- any other Go type
  deriving Repr, Inhabited

/-- Bindings: association list, first hit wins. -/
abbrev Bs := List (String × V)

def lookup (k : String) : List (String × V) → Option V
  | [] => none
  | (k', v) :: rest => if k = k' then some v else lookup k rest

/-- Go `m[k] = v` on an association list: replace in place, else append. -/
def insertB (k : String) (v : V) : Bs → Bs
  | [] => [(k, v)]
  | (k', v') :: rest => if k = k' then (k, v) :: rest else (k', v') :: insertB k v rest

def eraseB (k : String) : Bs → Bs
  | [] => []
  | (k', v') :: rest => if k = k' then eraseB k rest else (k', v') :: eraseB k rest

/-- `strings.HasPrefix(s, "?")`, on `toList` so that it reduces in the kernel. -/
def isVar (s : String) : Bool :=
  match s.toList with
  | '?' :: _ => true
  | _ => false

/-- `Matcher.IsOptionalVariable` -/
def isOptVar : V → Bool
  | .str s => match s.toList with
    | '?' :: '?' :: _ => true
    | _ => false
  | _ => false

/-- `Matcher.IsAnonymousVariable` -/
def isAnon (s : String) : Bool := s == "?"

/-- `core.isPermanent`: `strings.HasSuffix(p, "!")` -/
def isPermanent (s : String) : Bool :=
  match s.toList.reverse with
  | '!' :: _ => true
  | _ => false

inductive Scalar where
  | null | bool (b : Bool) | num (q : Rat) | str (s : String)
  deriving DecidableEq, Repr

/-- The element types that `match` indexes in the scalar set `fxs`
    (`case float64, string, bool, nil`). -/
def V.scalar? : V → Option Scalar
  | .null => some .null
  | .bool b => some (.bool b)
  | .num q => some (.num q)
  | .str s => some (.str s)
  | _ => none

def Scalar.toV : Scalar → V
  | .null => .null | .bool b => .bool b | .num q => .num q | .str s => .str s

/-- `match.fudge`: numeric Go types become float64; everything else untouched. -/
def fudge : V → V
  | .int i => .num i
  | v => v

inductive MatchErr where
  | badPropVar | multiVar | repeatedVar | unknownPatternType
  deriving Repr, DecidableEq

/-- Result of the matcher.  `diverge` = fuel exhausted = unbounded recursion in Go. -/
inductive MRes where
  | ok (bss : List Bs)
  | err (e : MatchErr)
  | diverge
  deriving Repr

/-- Go run-time panics are values. -/
inductive Outcome (α : Type) where
  | ok (a : α)
  | panic (site : String)
  deriving Repr

def Outcome.bind {α β} (o : Outcome α) (f : α → Outcome β) : Outcome β :=
  match o with
  | .ok a => f a
  | .panic s => .panic s

instance : Monad Outcome where
  pure := .ok
  bind := Outcome.bind

def Outcome.isPanic {α} : Outcome α → Bool
  | .panic _ => true
  | .ok _ => false
