/-!
# The timer services as a transition system (`cmd/mcrew/timers.go`, `sio/timers.go`), repaired trees

Steps are the lock-delimited regions of the source: `Add` and `Rem`/`Cancel` are one locked region
each; a timer goroutine parks in `select` and then either observes its closed control channel
(`seeCancel`) or takes the due arm (`due`), where it decides **under the lock, by entry identity**
whether it still stands, removes its entry and only then emits.  Whatever the handler of the emitted
message requests (re-creating the id, cancelling it) are ordinary `add`/`rem` actions that follow.

The two implementations differ in one place: `Add` on an id that is pending is refused by mcrew
(`Exists`) and replaces the pending timer in sio (`replaceOnAdd`).  Time is a logical clock (`tick`);
the due arm is enabled only once the clock has reached the entry's due time (Go's `time.NewTimer` is
trusted not to fire early).
-/

namespace Timers

abbrev Tid := String
abbrev Gen := Nat

inductive Phase where
  | waiting      -- goroutine parked in `select`
  | finished
  deriving DecidableEq, Repr

structure Proc where
  gen   : Gen
  id    : Tid
  due   : Nat
  phase : Phase
  deriving Repr

structure St where
  now       : Nat
  table     : List (Tid × Gen)       -- the table: id ↦ entry (identified by its generation)
  procs     : List Proc              -- one goroutine per accepted timer
  closed    : List Gen               -- entries whose control channel was closed
  nextGen   : Gen
  accepted  : List Gen
  cancelled : List Gen               -- a cancel request succeeded for this generation
  fired     : List (Gen × Nat)       -- emit was called for this generation, at this time
  deriving Repr

def St.init : St :=
  { now := 0, table := [], procs := [], closed := [], nextGen := 0, accepted := [], cancelled := [], fired := [] }

inductive Act where
  | add (id : Tid) (delay : Nat)
  | rem (id : Tid)
  | tick
  | due (g : Gen)
  | seeCancel (g : Gen)
  deriving Repr

def lookupT (id : Tid) : List (Tid × Gen) → Option Gen
  | [] => none
  | (i, g) :: r => if i = id then some g else lookupT id r

def eraseT (id : Tid) (t : List (Tid × Gen)) : List (Tid × Gen) := t.filter (fun e => e.1 != id)

def procOf (g : Gen) : List Proc → Option Proc
  | [] => none
  | p :: r => if p.gen = g then some p else procOf g r

def finish (g : Gen) (ps : List Proc) : List Proc :=
  ps.map (fun p => if p.gen = g then { p with phase := .finished } else p)

/-- one step; `none` = the action is not enabled, or the request is refused without effect
    (`Exists`, `NotFound`) -/
def step (replaceOnAdd : Bool) (s : St) : Act → Option St
  | .add id delay =>
    let fresh := fun (s : St) =>
      let g := s.nextGen
      { s with table := (id, g) :: s.table,
               procs := { gen := g, id := id, due := s.now + delay, phase := .waiting } :: s.procs,
               nextGen := g + 1, accepted := g :: s.accepted }
    match lookupT id s.table with
    | none => some (fresh s)
    | some old =>
      if replaceOnAdd then
        some (fresh { s with table := eraseT id s.table, closed := old :: s.closed, cancelled := old :: s.cancelled })
      else none
  | .rem id =>
    match lookupT id s.table with
    | none => none
    | some g => some { s with table := eraseT id s.table, closed := g :: s.closed, cancelled := g :: s.cancelled }
  | .tick => some { s with now := s.now + 1 }
  | .due g =>
    match procOf g s.procs with
    | some p =>
      if p.phase == .waiting && p.due ≤ s.now then
        if lookupT p.id s.table == some g then
          some { s with table := eraseT p.id s.table, procs := finish g s.procs, fired := (g, s.now) :: s.fired }
        else some { s with procs := finish g s.procs }      -- cancelled (or replaced) in the meantime
      else none
    | none => none
  | .seeCancel g =>
    match procOf g s.procs with
    | some p =>
      if p.phase == .waiting && s.closed.contains g then some { s with procs := finish g s.procs } else none
    | none => none

def run (replaceOnAdd : Bool) : St → List Act → Option St
  | s, [] => some s
  | s, a :: as =>
    match step replaceOnAdd s a with
    | some s' => run replaceOnAdd s' as
    | none => none

/-- the generations currently pending according to the table -/
def pendingGens (s : St) : List Gen := s.table.map (·.2)

/-- fired at most once -/
def firedOnce (s : St) : Bool := (s.fired.map (·.1)).all (fun g => ((s.fired.map (·.1)).filter (· == g)).length == 1)
/-- never before the due time -/
def neverEarly (s : St) : Bool :=
  s.fired.all (fun (g, t) => match procOf g s.procs with | some p => p.due ≤ t | none => false)
/-- a timer whose cancellation succeeded does not fire -/
def neverBoth (s : St) : Bool := s.fired.all (fun (g, _) => !s.cancelled.contains g)
/-- the table is exactly the accepted timers that have neither fired nor been cancelled -/
def tableIsPending (s : St) : Bool :=
  s.accepted.all (fun g =>
    (pendingGens s).contains g == (!(s.fired.map (·.1)).contains g && !s.cancelled.contains g)) &&
  (pendingGens s).all (fun g => s.accepted.contains g)
/-- every pending timer has a parked goroutine, so it can still be cancelled or fire -/
def tableLive (s : St) : Bool :=
  s.table.all (fun e => match procOf e.2 s.procs with
    | some p => p.phase == .waiting && p.id == e.1
    | none => false)
/-- ids in the table are distinct -/
def tableIdsDistinct (s : St) : Bool :=
  s.table.all (fun e => ((s.table.filter (fun e' => e'.1 == e.1)).length == 1))

/-- restart (sio): the published table is re-armed with the original due times -/
def restart (s : St) : St :=
  let live := s.table.filterMap (fun (id, g) => (procOf g s.procs).map (fun p => (id, g, p.due)))
  { now := s.now, table := s.table,
    procs := live.map (fun (id, g, due) => { gen := g, id := id, due := due, phase := .waiting }),
    closed := [], nextGen := s.nextGen, accepted := pendingGens s, cancelled := [], fired := [] }

end Timers
