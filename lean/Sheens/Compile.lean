import Sheens.Engine

/-!
# Model of `Spec.Compile` / `ParsePatterns` / `DefaultPatternParser` (`core/spec.go`), repaired tree

A specification *document* (`RawSpec`) is what a loader hands to `Compile`: nodes and branches may be
null, patterns are values (under `patternSyntax: json` a pattern that is a string is JSON text),
action and guard sources name an interpreter.  The text codec (`encoding/json`) is abstract: a
`Codec` with the one law `unmarshal (marshal v) = ok v`; that the real codec obeys it on plain values
is validated by the correspondence run.
-/

namespace Compile

structure Codec where
  marshal   : V → Option String          -- none = not serialisable
  unmarshal : String → Option V          -- none = not JSON

structure Source where
  interpreter : String
  source      : String

structure RawBranch where
  pattern : Option V
  guard   : Option Source
  target  : String

structure RawBranching where
  type     : String
  branches : List (Option RawBranch)      -- a null entry is `none`

structure RawNode where
  action    : Option Source
  branching : Option RawBranching

structure RawSpec where
  name                : String
  nodes               : Option (List (String × Option RawNode))   -- a null node is `none`
  patternSyntax       : String
  errorNode           : String
  noAutoErrorNode     : Bool
  actionErrorBranches : Bool
  actionErrorNode     : String

inductive CompileErr where
  | badPatternText | badSyntax (s : String) | notSerialisable | interpreterNotFound | badSource
  | unknownBranchingType (t : String) | nullBranch
  deriving DecidableEq, Repr

/-- `DefaultPatternParser` -/
def parsePattern (c : Codec) (syn : String) (p : Option V) : Except CompileErr (Option V) :=
  if syn == "none" || syn == "" then .ok p
  else if syn == "json" then
    match p with
    | some (.str text) =>
      (match c.unmarshal text with
       | some v => .ok (match v with | .null => none | x => some x)
       | none => .error .badPatternText)
    | _ => .ok p
  else .error (.badSyntax syn)

/-- `Canonicalize`: marshal, then unmarshal -/
def canonicalize (c : Codec) (p : Option V) : Except CompileErr (Option V) :=
  match p with
  | none => .ok none
  | some v =>
    match c.marshal v with
    | none => .error .notSerialisable
    | some text =>
      match c.unmarshal text with
      | some x => .ok (match x with | .null => none | y => some y)
      | none => .error .notSerialisable

def parseAndCanon (c : Codec) (syn : String) (p : Option V) : Except CompileErr (Option V) :=
  match parsePattern c syn p with
  | .error e => .error e
  | .ok x => canonicalize c x

def mapM' {α β ε : Type} (f : α → Except ε β) : List α → Except ε (List β)
  | [] => .ok []
  | x :: xs =>
    match f x with
    | .error e => .error e
    | .ok y => match mapM' f xs with
      | .error e => .error e
      | .ok ys => .ok (y :: ys)

/-- `ParsePatterns`: every non-null branch of every non-null node; afterwards the syntax is cleared -/
def parsePatterns (c : Codec) (s : RawSpec) : Except CompileErr RawSpec :=
  match s.nodes with
  | none => .ok s
  | some nodes =>
    let doBranch := fun (b : Option RawBranch) =>
      match b with
      | none => Except.ok none
      | some b => match parseAndCanon c s.patternSyntax b.pattern with
        | .error e => .error e
        | .ok p => .ok (some { b with pattern := p })
    let doNode := fun (p : String × Option RawNode) =>
      match p.2 with
      | none => Except.ok p
      | some n =>
        match n.branching with
        | none => .ok p
        | some br => match mapM' doBranch br.branches with
          | .error e => .error e
          | .ok bs => .ok (p.1, some { n with branching := some { br with branches := bs } })
    match mapM' doNode nodes with
    | .error e => .error e
    | .ok ns => .ok { s with nodes := some ns, patternSyntax := "" }

/-- a compiled branch / node / spec, still as data (sources instead of closures) -/
structure CBranch where
  pattern : Option V
  guard   : Option Source
  target  : String

structure CNode where
  action   : Option Source
  branches : Option (String × List CBranch)     -- (type, branches)

structure CSpec where
  name                : String
  nodes               : List (String × CNode)
  actionErrorBranches : Bool
  actionErrorNode     : String
  errorNode           : String
  noAutoErrorNode     : Bool

def compileSource (known : String → Bool) (srcOk : Source → Bool) (s : Option Source) : Except CompileErr (Option Source) :=
  match s with
  | none => .ok none
  | some x => if !known x.interpreter then .error .interpreterNotFound
              else if !srcOk x then .error .badSource else .ok (some x)

/-- `Compile` -/
def compile (c : Codec) (known : String → Bool) (srcOk : Source → Bool) (s0 : RawSpec) : Except CompileErr CSpec :=
  match parsePatterns c s0 with
  | .error e => .error e
  | .ok s =>
    let errorNode := if s.errorNode == "" then "error" else s.errorNode
    let nodes0 := s.nodes.getD []
    let nodes1 := if (nodes0.any (fun p => p.1 == errorNode)) || s.noAutoErrorNode then nodes0
                  else nodes0 ++ [(errorNode, some { action := none, branching := none })]
    let doBranch := fun (b : Option RawBranch) =>
      match b with
      | none => Except.error CompileErr.nullBranch
      | some b =>
        match parseAndCanon c s.patternSyntax b.pattern with
        | .error e => .error e
        | .ok p =>
          match compileSource known srcOk b.guard with
          | .error e => .error e
          | .ok g => .ok ({ pattern := p, guard := g, target := b.target } : CBranch)
    let doNode := fun (p : String × Option RawNode) =>
      let n : RawNode := p.2.getD { action := none, branching := none }
      match compileSource known srcOk n.action with
      | .error e => Except.error e
      | .ok a =>
        match n.branching with
        | none => .ok (p.1, ({ action := a, branches := none } : CNode))
        | some br =>
          let ty := if br.type == "" then "bindings" else br.type
          if ty != "message" && ty != "bindings" then .error (.unknownBranchingType br.type)
          else match mapM' doBranch br.branches with
            | .error e => .error e
            | .ok bs => .ok (p.1, { action := a, branches := some (ty, bs) })
    match mapM' doNode nodes1 with
    | .error e => .error e
    | .ok ns => .ok { name := s.name, nodes := ns, actionErrorBranches := s.actionErrorBranches,
                      actionErrorNode := s.actionErrorNode, errorNode := errorNode,
                      noAutoErrorNode := s.noAutoErrorNode }

/-- a compiled spec as a document again (dump / recompile / reload) -/
def decompile (cs : CSpec) : RawSpec :=
  { name := cs.name
    nodes := some (cs.nodes.map (fun (n, nd) =>
      (n, some { action := nd.action,
                 branching := nd.branches.map (fun (ty, bs) =>
                   { type := ty, branches := bs.map (fun b => some { pattern := b.pattern, guard := b.guard, target := b.target }) }) })))
    patternSyntax := ""
    errorNode := cs.errorNode
    noAutoErrorNode := cs.noAutoErrorNode
    actionErrorBranches := cs.actionErrorBranches
    actionErrorNode := cs.actionErrorNode }

end Compile
