import Sheens.Engine

/-!
# Model of the static analysis and the graph renderings (`tools/analysis.go`, `dot.go`, `mermaid.go`)

Only the structure is modelled: which sets and counts `Analyze` reports, which node declarations and
which edges `Dot` and `Mermaid` emit (the label formatting is not).  Go iterates the node map in an
arbitrary order (after `start`); node and edge collections are compared as multisets, the edges of
one node as a list (branch order).
-/

namespace Tools

structure TBranch where
  target      : String
  hasGuard    : Bool            -- `Guard != nil || GuardSource != nil`
  guardInterp : Option String   -- `GuardSource.Interpreter`, when there is a guard source

structure TNode where
  hasAction    : Bool           -- `Action != nil || ActionSource != nil`
  actionInterp : Option String  -- `ActionSource.Interpreter`, when there is an action source
  branches     : Option (List TBranch)   -- none = nil `Branches`

abbrev TSpec := List (String × TNode)

def branchesOf (n : TNode) : List TBranch := n.branches.getD []

def hasNode (s : TSpec) (name : String) : Bool := s.any (fun p => p.1 == name)

def dedupS : List String → List String
  | [] => []
  | x :: xs => x :: (dedupS xs).filter (· != x)

structure Analysis where
  nodeCount    : Nat
  branches     : Nat
  actions      : Nat
  guards       : Nat
  terminal     : List String
  orphans      : List String
  emptyTargets : List String
  missing      : List String
  targetVars   : List String
  interpreters : List String

def allBranches (s : TSpec) : List TBranch := s.flatMap (fun p => branchesOf p.2)

/-- `Analyze` (sets as de-duplicated lists; compared as sets) -/
def analyze (s : TSpec) : Analysis :=
  let targets := (allBranches s).map (·.target)
  let interps := (s.filterMap (fun p => p.2.actionInterp)) ++ ((allBranches s).filterMap (·.guardInterp))
  { nodeCount := s.length
    branches := (allBranches s).length
    actions := (s.filter (fun p => p.2.hasAction)).length
    guards := ((allBranches s).filter (·.hasGuard)).length
    terminal := (s.filter (fun p => (branchesOf p.2).isEmpty)).map (·.1)
    orphans := (s.map (·.1)).filter (fun n => !targets.contains n)
    emptyTargets := dedupS ((s.filter (fun p => (branchesOf p.2).any (fun b => b.target == ""))).map (·.1))
    missing := dedupS (targets.filter (fun t => !isTargetVar t && !hasNode s t))
    targetVars := dedupS (targets.filter isTargetVar)
    interpreters := if interps.isEmpty then ["default"] else dedupS interps }

structure Rendering where
  nodes : List String                     -- one declaration per entry
  edges : List (String × List String)     -- per processed spec node: its edges' targets, in order

/-- both renderers: `start` first, then the other nodes; a node is declared when first met — as the
    node being processed or as the target of a branch (whether or not it is a node of the spec) -/
def render (s : TSpec) : Rendering :=
  let order := (s.filter (fun p => p.1 == "start")) ++ (s.filter (fun p => p.1 != "start"))
  let visit := fun (acc : List String × List (String × List String)) (p : String × TNode) =>
    let seen := if acc.1.contains p.1 then acc.1 else acc.1 ++ [p.1]
    match p.2.branches with
    | none => (seen, acc.2)
    | some bs =>
      let seen' := bs.foldl (fun sn b => if sn.contains b.target then sn else sn ++ [b.target]) seen
      (seen', acc.2 ++ [(p.1, bs.map (·.target))])
  let r := order.foldl visit ([], [])
  { nodes := r.1, edges := r.2 }

end Tools
