import Sheens.SioCrew
import Sheens.Proofs.ChangeLemmas

/-!
# Property C15 — reported changes suffice

Over the model of `sio/crew.go`: `setMachine`, `deleteMachine`, `runMachine`, `getChanged` (with its
suppression cache), the reference consumer's fold `applyChanges`, and `rebuild`.

Views are compared pointwise (per machine id), with a machine stored without a state standing for
the default state — exactly what the boot path does with it.

One behaviour of the code makes the full statement false: a machine that is deleted and then set
again *before the deletion has been reported* (both inside one `ProcessMsg`) is reported as
deleted only (`Changed.Deleted` is never cleared).  The theorems carry the hypothesis that this
does not happen (`NoPendingDelete`); the negation of the full statement is proved from a concrete
witness and replayed against the implementation (known finding KF-C15-1).

The invariant has a third conjunct: the cached changes have distinct machine ids.  `Crew.changed` is
a Go map, so this is a fact of the representation; the model's `put` maintains it and every crew
starts with `changed = []`.  Without it the operation lemmas are false of the list model
(`inv_setMachine_full_false` below).  `getChanged_sufficient` needs only the first two conjuncts.
-/

namespace Sheens.C15

open Sio

def ordinary (mid : String) : Bool := mid != captainId && mid != timersId

/-- what the live crew says about a machine -/
def liveAt (c : Crew) (mid : String) : Option (State × Option V) :=
  (find mid c.machines).map (fun m => (defaultState (some m.state), m.src))

/-- what a store says about a machine (no stored state = the default state, as on boot) -/
def storeAt (store : List (String × Stored)) (mid : String) : Option (State × Option V) :=
  (find mid store).map (fun s => (defaultState s.state, s.src))

/-- the net report `getChanged` would make for the cached changes, before suppression -/
def pendingNet (c : Crew) : List (String × Changed) :=
  (c.changed.filter (fun p => p.1 != captainId)).map (fun (mid, ch) =>
    if ch.deleted then (mid, { state := none, src := none, deleted := true })
    else (mid, { state := ch.state.map stateCopy, src := ch.src, deleted := false }))

/-- The first two parts of the invariant between a crew (with its not-yet-reported changes) and the
    consumer's store: applying the pending changes to the store gives the live crew, machine by
    machine; and the store already reflects every report remembered in the suppression cache. -/
def InvCore (c : Crew) (store : List (String × Stored)) : Prop :=
  (∀ mid, ordinary mid = true → storeAt (applyChanges store (pendingNet c)) mid = liveAt c mid) ∧
  (∀ mid p, find mid c.previous = some p → applyChanges store [(mid, p)] = store)

/-- The invariant between a crew (with its not-yet-reported changes) and the consumer's store:
    applying the pending changes to the store gives the live crew, machine by machine; the
    store already reflects every report remembered in the suppression cache; and the cached changes
    have distinct ids (`changed` is a map). -/
def Inv (c : Crew) (store : List (String × Stored)) : Prop :=
  (∀ mid, ordinary mid = true → storeAt (applyChanges store (pendingNet c)) mid = liveAt c mid) ∧
  (∀ mid p, find mid c.previous = some p → applyChanges store [(mid, p)] = store) ∧
  (c.changed.map (·.1)).Nodup

theorem Inv.core {c : Crew} {store : List (String × Stored)} (h : Inv c store) : InvCore c store :=
  ⟨h.1, h.2.1⟩

/-- no cached change of the crew carries a pending deletion for this id -/
def NoPendingDelete (c : Crew) (mid : String) : Prop := (changeOf c mid).deleted = false

/-! ## The invariant, machine by machine -/

theorem ordinary_ne {mid : String} (h : ordinary mid = true) : mid ≠ captainId ∧ mid ≠ timersId := by
  simpa [ordinary] using h

theorem pendingNet_eq (c : Crew) : pendingNet c = netList c.changed := netList_eq _

theorem storeAt_pending (c : Crew) (store : List (String × Stored)) (hn : (c.changed.map (·.1)).Nodup)
    (mid : String) (hmid : ordinary mid = true) :
    storeAt (applyChanges store (pendingNet c)) mid =
      (eff (find mid store) (find mid c.changed)).map sview := by
  unfold storeAt
  rw [pendingNet_eq, find_apply_netList _ hn _ _ (ordinary_ne hmid).1]
  rfl

/-- the invariant read at one machine id -/
theorem Inv.at {c : Crew} {store : List (String × Stored)} (h : Inv c store) {mid : String}
    (hmid : ordinary mid = true) :
    (eff (find mid store) (find mid c.changed)).map sview = (find mid c.machines).map mview := by
  have := h.1 mid hmid
  rw [storeAt_pending c store h.2.2 mid hmid] at this
  exact this

/-- a crew with the same cache, the same pending changes and the same machines (as a map) -/
theorem inv_congr {c c' : Crew} {store : List (String × Stored)} (h : Inv c store)
    (hch : c'.changed = c.changed) (hprev : c'.previous = c.previous)
    (hm : ∀ k, find k c'.machines = find k c.machines) : Inv c' store := by
  refine ⟨?_, ?_, ?_⟩
  · intro k hk
    have := h.1 k hk
    unfold pendingNet liveAt at this ⊢
    rw [hch, hm]; exact this
  · rw [hprev]; exact h.2.1
  · rw [hch]; exact h.2.2

/-- an operation that records a change `ch'` for `mid` and touches only that machine -/
theorem inv_update {c c' : Crew} {store : List (String × Stored)} {mid : String} {ch' : Changed}
    (h : Inv c store) (hprev : c'.previous = c.previous) (hch : c'.changed = put mid ch' c.changed)
    (hmach : ∀ k, k ≠ mid → find k c'.machines = find k c.machines)
    (hgood : ordinary mid = true →
      (app1 (find mid store) (net ch')).map sview = (find mid c'.machines).map mview) :
    Inv c' store := by
  have hn : (c'.changed.map (·.1)).Nodup := by rw [hch]; exact nodup_keys_put h.2.2
  refine ⟨?_, ?_, hn⟩
  · intro k hk
    rw [storeAt_pending c' store hn k hk]
    show _ = (find k c'.machines).map mview
    by_cases hkm : k = mid
    · subst hkm
      rw [hch, find_put_self]
      exact hgood hk
    · rw [hch, find_put_ne _ _ hkm, hmach k hkm]
      exact h.at hk
  · rw [hprev]; exact h.2.1

/-- what the invariant says at a machine that exists and has no pending deletion -/
theorem eff_view {o : Option Stored} {och : Option Changed} {m0 : Machine}
    (hnd : (och.getD emptyChanged).deleted = false)
    (hinv : (eff o och).map sview = some (mview m0)) :
    defaultState (upd (o.getD noStored) (net (och.getD emptyChanged))).state = defaultState (some m0.state) ∧
    (upd (o.getD noStored) (net (och.getD emptyChanged))).src = m0.src := by
  cases he : eff o och with
  | none => rw [he] at hinv; cases hinv
  | some E =>
    rw [he] at hinv
    simp only [Option.map_some, Option.some.injEq, sview, mview, Prod.mk.injEq] at hinv
    rw [eff_some hnd he]
    exact hinv

theorem inv_setMachine (resolve : V → Option Spec) (c : Crew) (store : List (String × Stored))
    (mid : String) (src : Option V) (state : Option State)
    (hmid : ordinary mid = true) (hnd : NoPendingDelete c mid)
    (hreport : (find mid c.machines).isNone → src.isSome ∨ state.isSome)
    (h : Inv c store) : Inv (setMachine resolve c mid src state) store := by
  have hnd0 : ((find mid c.changed).getD emptyChanged).deleted = false := hnd
  by_cases hrep : (src.isSome || state.isSome) = true
  · have hnd' : (newCh (changeOf c mid) src state).deleted = false := by
      rw [newCh_deleted]; exact hnd
    refine inv_update (ch' := newCh (changeOf c mid) src state) h (setMachine_previous ..)
      (by rw [setMachine_changed, if_pos hrep])
      (fun k hk => by rw [setMachine_machines]; exact find_put_ne _ _ hk) ?_
    intro _
    rw [setMachine_machines, find_put_self, app1_net_not_deleted _ _ hnd']
    simp only [Option.map_some, Option.some.injEq]
    have hinv := h.at hmid
    cases hfm : find mid c.machines with
    | none =>
      rw [hfm] at hinv
      have he : eff (find mid store) (find mid c.changed) = none := by
        cases hx : eff (find mid store) (find mid c.changed) with
        | none => rfl
        | some _ => rw [hx] at hinv; cases hinv
      obtain ⟨hoch, ho⟩ := eff_none hnd0 he
      have hc0 : changeOf c mid = emptyChanged := by unfold changeOf; rw [hoch]; rfl
      rw [mview_newM_none, ho, hc0]
      unfold sview
      rw [upd_net_state _ _ (by rw [newCh_deleted]; rfl), upd_net_src _ _ (by rw [newCh_deleted]; rfl),
        newCh_state, newCh_src]
      cases state <;> cases src <;>
        simp [emptyChanged, noStored, defaultState_stateCopy, stateCopy_stateCopy, defaultState_defaultState]
    | some m0 =>
      rw [hfm] at hinv
      obtain ⟨hs, hsrc⟩ := eff_view hnd0 hinv
      rw [upd_net_state _ _ hnd0] at hs
      rw [upd_net_src _ _ hnd0] at hsrc
      rw [mview_newM_some]
      unfold sview
      rw [upd_net_state _ _ hnd', upd_net_src _ _ hnd', newCh_state, newCh_src]
      have hc0 : changeOf c mid = (find mid c.changed).getD emptyChanged := rfl
      rw [hc0]
      refine Prod.ext ?_ ?_
      · cases state with
        | none => exact hs
        | some x => simp [defaultState_stateCopy, stateCopy_stateCopy, defaultState_defaultState]
      · cases src with
        | none => exact hsrc
        | some x => rfl
  · have hsrc : src = none := by cases src <;> simp_all
    have hst : state = none := by cases state <;> simp_all
    subst hsrc; subst hst
    cases hfm : find mid c.machines with
    | none => rw [hfm] at hreport; simp at hreport
    | some m0 =>
      refine inv_congr h (by rw [setMachine_changed]; rfl) (setMachine_previous ..) ?_
      intro k
      rw [setMachine_machines, hfm]
      exact find_put_same hfm k

theorem inv_deleteMachine (c : Crew) (store : List (String × Stored)) (mid : String)
    (hmid : ordinary mid = true) (h : Inv c store) : Inv (deleteMachine c mid) store := by
  have _ := hmid
  refine inv_update (c' := deleteMachine c mid) (ch' := { (changeOf c mid) with deleted := true })
    h rfl rfl (fun k hk => find_del_ne _ hk) ?_
  intro _
  rw [app1_net_deleted _ _ rfl]
  show none = (find mid (del mid c.machines)).map mview
  rw [find_del_self]; rfl

theorem inv_runMachine (c : Crew) (store : List (String × Stored)) (mid : String) (m : Machine) (msg : V)
    (hmid : ordinary mid = true) (hm : find mid c.machines = some m) (hnd : NoPendingDelete c mid)
    (h : Inv c store) : Inv (runMachine c mid m msg).1 store := by
  have hnd0 : ((find mid c.changed).getD emptyChanged).deleted = false := hnd
  unfold runMachine
  cases m.spec with
  | none => exact h
  | some spec =>
    simp only
    cases lastTo (walk spec m.state [msg] c.limit (fun _ => false)).strides with
    | none => exact h
    | some t =>
      simp only
      have hnd' : ({ (changeOf c mid) with state := some (stateCopy t) } : Changed).deleted = false := hnd
      refine inv_update (ch' := { (changeOf c mid) with state := some (stateCopy t) }) h rfl rfl
        (fun k hk => find_put_ne _ _ hk) ?_
      intro _
      simp only
      rw [find_put_self, app1_net_not_deleted _ _ hnd']
      simp only [Option.map_some, Option.some.injEq]
      have hinv := h.at hmid
      rw [hm] at hinv
      obtain ⟨_, hsrc⟩ := eff_view hnd0 hinv
      rw [upd_net_src _ _ hnd0] at hsrc
      unfold sview mview
      rw [upd_net_state _ _ hnd', upd_net_src _ _ hnd']
      refine Prod.ext ?_ ?_
      · rfl
      · exact hsrc

/-- After `getChanged`, a store that applies the reported changes equals the live crew, and the
    invariant holds again (with nothing pending).  `same` may be any test that only identifies
    reports with the same effect. -/
theorem getChanged_sufficient (same : Changed → Changed → Bool) (c : Crew) (store : List (String × Stored))
    (hsame : ∀ a b, same a b = true → ∀ st mid, applyChanges st [(mid, a)] = applyChanges st [(mid, b)])
    (h : Inv c store) :
    let r := getChanged same c
    (∀ mid, ordinary mid = true → storeAt (applyChanges store r.2) mid = liveAt r.1 mid) ∧
    Inv r.1 (applyChanges store r.2) := by
  intro r
  have hr : r = _ := getChanged_eq same c
  obtain ⟨h1, h2⟩ := gfold_inv same hsame store (netList c.changed) c.previous []
    (fun mid q hq => h.2.1 mid q hq)
  rw [applyChanges_nil] at h1
  have ha : ∀ mid, ordinary mid = true → storeAt (applyChanges store r.2) mid = liveAt r.1 mid := by
    intro mid hmid
    rw [hr]
    simp only
    rw [h1, ← pendingNet_eq]
    exact h.1 mid hmid
  refine ⟨ha, ha, ?_, ?_⟩
  · rw [hr]; exact h2
  · rw [hr]; exact List.nodup_nil

/-- `getChanged_sufficient` does not need the distinct-ids part of the invariant. -/
theorem getChanged_sufficient_core (same : Changed → Changed → Bool) (c : Crew) (store : List (String × Stored))
    (hsame : ∀ a b, same a b = true → ∀ st mid, applyChanges st [(mid, a)] = applyChanges st [(mid, b)])
    (h : InvCore c store) :
    let r := getChanged same c
    (∀ mid, ordinary mid = true → storeAt (applyChanges store r.2) mid = liveAt r.1 mid) ∧
    Inv r.1 (applyChanges store r.2) := by
  intro r
  have hr : r = _ := getChanged_eq same c
  obtain ⟨h1, h2⟩ := gfold_inv same hsame store (netList c.changed) c.previous []
    (fun mid q hq => h.2 mid q hq)
  rw [applyChanges_nil] at h1
  have ha : ∀ mid, ordinary mid = true → storeAt (applyChanges store r.2) mid = liveAt r.1 mid := by
    intro mid hmid
    rw [hr]
    simp only
    rw [h1, ← pendingNet_eq]
    exact h.1 mid hmid
  refine ⟨ha, ha, ?_, ?_⟩
  · rw [hr]; exact h2
  · rw [hr]; exact List.nodup_nil

/-- The full statement is false of the code: delete then re-create inside one round. -/
def resurrect_full : Prop :=
  ∀ (resolve : V → Option Spec) (c : Crew) (store : List (String × Stored)) (mid : String)
    (src : Option V) (state : Option State),
    ordinary mid = true → ((find mid c.machines).isNone → src.isSome ∨ state.isSome) →
    Inv c store → Inv (setMachine resolve c mid src state) store

/-- the witness: machine "m" is stored, was deleted, and the deletion is not yet reported -/
def witnessCrew : Crew :=
  { machines := [], changed := [("m", { state := none, src := none, deleted := true })],
    previous := [], limit := none }

def witnessStore : List (String × Stored) := [("m", { state := none, src := none })]

def witnessState : State := { node := "start", bs := some [] }

theorem witness_inv : Inv witnessCrew witnessStore := by
  refine ⟨?_, ?_, ?_⟩
  · intro mid _
    have hp : applyChanges witnessStore (pendingNet witnessCrew) = [] := by
      simp [pendingNet, witnessCrew, witnessStore, applyChanges, captainId, del]
    rw [hp]; rfl
  · intro mid p hp; simp [witnessCrew, find] at hp
  · simp [witnessCrew]

theorem resurrect_full_false : ¬ resurrect_full := by
  intro hfull
  have h := hfull (fun _ => none) witnessCrew witnessStore "m" none (some witnessState)
    (by decide) (fun _ => Or.inr rfl) witness_inv
  have h1 := h.1 "m" (by decide)
  have hp : applyChanges witnessStore
      (pendingNet (setMachine (fun _ => none) witnessCrew "m" none (some witnessState))) = [] := by
    simp [pendingNet, setMachine, witnessCrew, witnessStore, applyChanges, captainId, del, put, find,
      changeOf]
  rw [hp] at h1
  simp [storeAt, liveAt, setMachine, witnessCrew, find, put] at h1

/-! ## Why the invariant says that the cached changes have distinct ids

`Crew.changed` is a Go map.  In the list model a `changed` list with two entries for one id can
satisfy the first two parts of the invariant, and then `setMachine` (which rewrites the first entry
only) breaks them. -/

/-- `inv_setMachine` over the two-part invariant: false of the list model. -/
def inv_setMachine_full : Prop :=
  ∀ (resolve : V → Option Spec) (c : Crew) (store : List (String × Stored)) (mid : String)
    (src : Option V) (state : Option State),
    ordinary mid = true → NoPendingDelete c mid →
    ((find mid c.machines).isNone → src.isSome ∨ state.isSome) →
    InvCore c store → InvCore (setMachine resolve c mid src state) store

def dupCrew : Crew :=
  { machines := [("m", { spec := none, src := none, state := { node := "b", bs := some [] } })],
    changed := [("m", { state := some { node := "a", bs := some [] }, src := none, deleted := false }),
                ("m", { state := some { node := "b", bs := some [] }, src := none, deleted := false })],
    previous := [], limit := none }

theorem dupCrew_invCore : InvCore dupCrew [] := by
  refine ⟨?_, ?_⟩
  · intro mid _
    have hp : applyChanges [] (pendingNet dupCrew) =
        [("m", { state := some { node := "b", bs := some [] }, src := none })] := by
      simp [pendingNet, dupCrew, applyChanges, captainId, put, find, stateCopy, copyB]
    rw [hp]
    unfold storeAt liveAt
    simp only [dupCrew, find]
    split
    · simp [defaultState, copyB]
    · rfl
  · intro mid p hp; simp [dupCrew, find] at hp

theorem inv_setMachine_full_false : ¬ inv_setMachine_full := by
  intro hfull
  have h := hfull (fun _ => none) dupCrew [] "m" none (some { node := "c", bs := some [] })
    (by decide) (by simp [NoPendingDelete, changeOf, dupCrew, find]) (fun _ => Or.inr rfl) dupCrew_invCore
  have h1 := h.1 "m" (by decide)
  have hp : applyChanges []
      (pendingNet (setMachine (fun _ => none) dupCrew "m" none (some { node := "c", bs := some [] }))) =
        [("m", { state := some { node := "b", bs := some [] }, src := none })] := by
    simp [pendingNet, setMachine, dupCrew, applyChanges, captainId, put, find, changeOf, stateCopy, copyB,
      defaultState]
  rw [hp] at h1
  simp [storeAt, liveAt, setMachine, dupCrew, find, put, defaultState, copyB] at h1

/-! ## Boot -/

theorem liveAt_setMachine_ne (resolve : V → Option Spec) (c : Crew) (mid k : String) (src : Option V)
    (state : Option State) (h : k ≠ mid) : liveAt (setMachine resolve c mid src state) k = liveAt c k := by
  unfold liveAt
  rw [setMachine_machines, find_put_ne _ _ h]

theorem boot_notin (resolve : V → Option Spec) (k : String) (store : List (String × Stored)) :
    ∀ c : Crew, k ∉ store.map (·.1) →
      liveAt (store.foldl (fun c (mid, s) => setMachine resolve c mid s.src s.state) c) k = liveAt c k := by
  induction store with
  | nil => intro c _; rfl
  | cons p rest ih =>
    obtain ⟨k', s⟩ := p
    intro c hk
    simp only [List.map_cons, List.mem_cons, not_or] at hk
    simp only [List.foldl_cons]
    rw [ih _ hk.2]
    exact liveAt_setMachine_ne resolve c k' k _ _ hk.1

theorem boot_in (resolve : V → Option Spec) (k : String) (store : List (String × Stored)) :
    ∀ c : Crew, (store.map (·.1)).Nodup → find k c.machines = none →
      liveAt (store.foldl (fun c (mid, s) => setMachine resolve c mid s.src s.state) c) k = storeAt store k := by
  induction store with
  | nil => intro c _ hc; unfold liveAt storeAt; simp only [List.foldl_nil]; rw [hc]; rfl
  | cons p rest ih =>
    obtain ⟨k', s⟩ := p
    intro c hn hc
    simp only [List.map_cons, List.nodup_cons] at hn
    simp only [List.foldl_cons]
    by_cases hk : k = k'
    · subst hk
      rw [boot_notin resolve k rest _ hn.1]
      unfold liveAt storeAt
      rw [setMachine_machines, find_put_self, hc]
      simp only [find, if_true, Option.map_some, Option.some.injEq]
      exact mview_newM_none resolve s.src s.state
    · have : storeAt ((k', s) :: rest) k = storeAt rest k := by
        unfold storeAt; simp only [find, if_neg hk]
      rw [this]
      apply ih _ hn.2
      rw [setMachine_machines, find_put_ne _ _ hk]; exact hc

/-- the crew `rebuild` starts from: the two service machines -/
def bootCrew (limit : Option Int) : Crew :=
  { machines := [(captainId, { spec := none, src := none, state := defaultState none }),
                 (timersId, { spec := none, src := none, state := defaultState none })],
    changed := [], previous := [], limit := limit }

/-- A crew rebuilt from the store has the same machines in the same states with the same specs. -/
theorem rebuild_equiv (resolve : V → Option Spec) (limit : Option Int) (store : List (String × Stored))
    (hnd : (store.map (·.1)).Nodup) (mid : String) (hmid : ordinary mid = true) :
    liveAt (rebuild resolve limit store) mid = storeAt store mid := by
  obtain ⟨hc, ht⟩ := ordinary_ne hmid
  have hb := boot_in resolve mid store (bootCrew limit) hnd (by simp [bootCrew, find, hc, ht])
  rw [← hb]
  rfl

end Sheens.C15
