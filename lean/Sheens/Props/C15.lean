import Sheens.SioCrew

/-! Property C15 — theorems (in progress). -/
