import Sheens.ES

/-! Property C09 — theorems (in progress). -/
