import Sheens.ES
import Sheens.Proofs.ProgPlain

/-!
# Property C09 — state is plain data: persisting and restoring a machine is unobservable

`canonV` is the JSON write/read of a Go value as the engine sees it (`json.Marshal` then
`json.Unmarshal` into `interface{}`): numeric Go types become float64, a `match.Bindings` map becomes
a plain map, anything else is not serialisable.  On plain values it is the identity; the engine
(repaired tree) only ever builds plain states from plain inputs, so a write/read at any message
boundary changes nothing.
-/

namespace Sheens.C09

mutual
/-- hereditarily JSON-plain: what `json.Unmarshal` into `interface{}` produces -/
def plainV : V → Bool
  | .null | .bool _ | .num _ | .str _ => true
  | .arr xs => plainList xs
  | .obj kvs => plainKvs kvs
  | .int _ | .bobj _ | .other _ => false
def plainList : List V → Bool
  | [] => true
  | x :: xs => plainV x && plainList xs
def plainKvs : List (String × V) → Bool
  | [] => true
  | (_, v) :: rest => plainV v && plainKvs rest
end

mutual
/-- the JSON round trip on a Go-typed value -/
def canonV : V → Option V
  | .null => some .null
  | .bool b => some (.bool b)
  | .num q => some (.num q)
  | .str s => some (.str s)
  | .int i => some (.num i)
  | .arr xs => (canonList xs).map V.arr
  | .obj kvs => (canonKvs kvs).map V.obj
  | .bobj kvs => (canonKvs kvs).map V.obj
  | .other _ => none
def canonList : List V → Option (List V)
  | [] => some []
  | x :: xs => match canonV x, canonList xs with
    | some y, some ys => some (y :: ys)
    | _, _ => none
def canonKvs : List (String × V) → Option (List (String × V))
  | [] => some []
  | (k, v) :: rest => match canonV v, canonKvs rest with
    | some y, some ys => some ((k, y) :: ys)
    | _, _ => none
end

def plainBs (bs : Bs) : Prop := plainKvs bs = true
def plainState (st : State) : Prop := ∀ bs, st.bs = some bs → plainBs bs
def plainMsgs (msgs : List V) : Prop := ∀ m ∈ msgs, plainV m = true

/-- an action or guard that returns JSON-representable values when given plain bindings
    (the ECMAScript interpreter canonicalises what a script returns and emits) -/
def PlainAction (a : ActionF) : Prop :=
  ∀ bs, plainBs (copyB bs) → ∀ bo em, (a bs).exe = some (bo, em) →
    plainMsgs em ∧ ∀ b, bo = some b → plainBs b

def PlainSpec (s : Spec) : Prop :=
  ∀ name n, (name, n) ∈ s.nodes →
    (∀ a, n.action = some a → PlainAction a) ∧
    (∀ br, n.branches = some br → ∀ b ∈ br.branches, ∀ g, b.guard = some g → PlainAction g)

mutual
theorem canonV_id : ∀ (v : V), plainV v = true → canonV v = some v
  | .null, _ => rfl
  | .bool _, _ => rfl
  | .num _, _ => rfl
  | .str _, _ => rfl
  | .arr xs, h => by
    have h' : plainList xs = true := by simpa only [plainV] using h
    simp only [canonV, canonList_id xs h', Option.map_some]
  | .obj kvs, h => by
    have h' : plainKvs kvs = true := by simpa only [plainV] using h
    simp only [canonV, canonKvs_id kvs h', Option.map_some]
  | .int _, h => by simp [plainV] at h
  | .bobj _, h => by simp [plainV] at h
  | .other _, h => by simp [plainV] at h
theorem canonList_id : ∀ (xs : List V), plainList xs = true → canonList xs = some xs
  | [], _ => rfl
  | x :: xs, h => by
    simp only [plainList, Bool.and_eq_true] at h
    simp only [canonList, canonV_id x h.1, canonList_id xs h.2]
theorem canonKvs_id : ∀ (kvs : List (String × V)), plainKvs kvs = true → canonKvs kvs = some kvs
  | [], _ => rfl
  | (k, v) :: rest, h => by
    simp only [plainKvs, Bool.and_eq_true] at h
    simp only [canonKvs, canonV_id v h.1, canonKvs_id rest h.2]
end

/-- The round trip is the identity on plain values. -/
theorem canon_id_on_plain (v : V) (h : plainV v = true) : canonV v = some v :=
  canonV_id v h

/-- … hence on plain states: the state read back is the state written. -/
def roundTrip (st : State) : Option State :=
  match st.bs with
  | none => some st
  | some bs => (canonKvs bs).map (fun b => { st with bs := some b })

theorem roundTrip_id (st : State) (h : plainState st) : roundTrip st = some st := by
  obtain ⟨node, bs⟩ := st
  cases bs with
  | none => rfl
  | some b =>
    have hb : plainKvs b = true := h b rfl
    simp only [roundTrip, canonKvs_id b hb, Option.map_some]

/-! ### plainness as an instance of the generic value predicates of `Sheens/Proofs/PlainLemmas.lean` -/

/-- "is plain", as a `Prop`-valued predicate -/
def IsPlain (v : V) : Prop := plainV v = true

theorem plainList_iff (xs : List V) : plainList xs = true ↔ ∀ x ∈ xs, IsPlain x := by
  induction xs with
  | nil => simp [plainList]
  | cons x xs ih => simp only [plainList, Bool.and_eq_true, ih, List.forall_mem_cons, IsPlain]

theorem plainKvs_iff (kvs : List (String × V)) : plainKvs kvs = true ↔ Plain.AllBs IsPlain kvs := by
  unfold Plain.AllBs
  induction kvs with
  | nil => simp [plainKvs]
  | cons kv rest ih =>
    obtain ⟨k, v⟩ := kv
    simp only [plainKvs, Bool.and_eq_true, ih, List.forall_mem_cons, IsPlain]

theorem isPlain_valPred : Plain.ValPred IsPlain where
  null := rfl
  bool _ := rfl
  num _ := rfl
  str _ := rfl
  arr xs := by rw [← plainList_iff]; simp only [IsPlain, plainV]
  obj kvs := by
    show _ ↔ Plain.AllBs IsPlain kvs
    rw [← plainKvs_iff]; simp only [IsPlain, plainV]

theorem plainBs_iff (bs : Bs) : plainBs bs ↔ Plain.AllBs IsPlain bs := plainKvs_iff bs

theorem plainState_iff (st : State) : plainState st ↔ Plain.PredState IsPlain st := by
  unfold plainState Plain.PredState
  exact ⟨fun h bs hb => (plainBs_iff bs).mp (h bs hb), fun h bs hb => (plainBs_iff bs).mpr (h bs hb)⟩

theorem plainAction_pred {a : ActionF} (h : PlainAction a) : Plain.PredAction IsPlain a := by
  intro bs hbs bo em hx
  obtain ⟨h1, h2⟩ := h bs ((plainBs_iff _).mpr hbs) bo em hx
  exact ⟨h1, fun b hb => (plainBs_iff b).mp (h2 b hb)⟩

theorem pred_plainAction {a : ActionF} (h : Plain.PredAction IsPlain a) : PlainAction a := by
  intro bs hbs bo em hx
  obtain ⟨h1, h2⟩ := h bs ((plainBs_iff _).mp hbs) bo em hx
  exact ⟨h1, fun b hb => (plainBs_iff b).mpr (h2 b hb)⟩

theorem plainSpec_pred {s : Spec} (h : PlainSpec s) : Plain.PredSpec IsPlain s := by
  intro name n hn
  obtain ⟨h1, h2⟩ := h name n hn
  exact ⟨fun a ha => plainAction_pred (h1 a ha),
    fun br hbr b hb g hg => plainAction_pred (h2 br hbr b hb g hg)⟩

theorem predStride_plain {sd : Stride} (h : Plain.PredStride IsPlain sd) :
    (∀ t, sd.to = some t → plainState t) ∧ plainMsgs sd.emitted :=
  ⟨fun t ht => (plainState_iff t).mpr (h.1 t ht), h.2⟩

/-- The matcher only binds parts of the message and numbers: plain in, plain out. -/
theorem match_preserves_plain (n : Nat) (p f : V) (bs : Bs) (rs : List Bs)
    (hf : plainV f = true) (hb : plainBs bs) (h : matchF n p f bs = .ok rs) : ∀ r ∈ rs, plainBs r :=
  fun r hr => (plainBs_iff r).mpr
    (Plain.matchF_pred isPlain_valPred hf ((plainBs_iff bs).mp hb) h r hr)

/-- Every state a step produces from a plain state and a plain message is plain. -/
theorem step_preserves_plain (s : Spec) (hs : PlainSpec s) (st : State) (pending : Option V)
    (hst : plainState st) (hp : ∀ m, pending = some m → plainV m = true)
    (sd : Stride) (h : (step s st pending).stride = some sd) :
    (∀ t, sd.to = some t → plainState t) ∧ plainMsgs sd.emitted :=
  predStride_plain
    (Plain.step_pred isPlain_valPred (plainSpec_pred hs) ((plainState_iff st).mp hst) hp h)

/-- … and so is every state of a walk, including the error states with their diagnostic bindings. -/
theorem walk_preserves_plain (s : Spec) (hs : PlainSpec s) (st : State) (msgs : List V) (l : Option Int)
    (bp : State → Bool) (hst : plainState st) (hm : plainMsgs msgs) :
    ∀ sd ∈ (walk s st msgs l bp).strides, (∀ t, sd.to = some t → plainState t) ∧ plainMsgs sd.emitted :=
  fun sd hsd => predStride_plain
    (Plain.walk_pred isPlain_valPred (plainSpec_pred hs) l bp ((plainState_iff st).mp hst) hm sd hsd)

/-- Persisting and restoring at a message boundary is unobservable: continuing from the state read
    back is continuing from the in-memory state. -/
theorem persist_unobservable (s : Spec) (hs : PlainSpec s) (st : State) (batch₁ batch₂ : List V)
    (l₁ l₂ : Option Int) (bp : State → Bool) (hst : plainState st) (hm : plainMsgs batch₁) :
    let mid := finalState st (walk s st batch₁ l₁ bp)
    ∃ mid', roundTrip mid = some mid' ∧ walk s mid' batch₂ l₂ bp = walk s mid batch₂ l₂ bp := by
  intro mid
  have hmid : plainState mid :=
    (plainState_iff mid).mpr
      (Plain.finalState_pred isPlain_valPred (plainSpec_pred hs) l₁ bp ((plainState_iff st).mp hst) hm)
  exact ⟨mid, roundTrip_id mid hmid, rfl⟩

/-- The DSL's ECMAScript actions are plain actions when their literals are plain. -/
def plainOp : Op → Bool
  | .set _ v => plainV v
  | .emit v => plainV v
  | .setnested _ _ v => plainV v
  | .markdeep _ _ v => plainV v
  | .rejectIf _ v => plainV v
  | _ => true

theorem plainOp_pred {o : Op} (h : plainOp o = true) : Plain.PredOp IsPlain o := by
  cases o <;> first | exact h | trivial

theorem prog_is_plain_action (p : Prog) (h : p.ops.all plainOp = true) : PlainAction p.run :=
  pred_plainAction
    (Plain.prog_pred isPlain_valPred p (fun o ho => plainOp_pred (List.all_eq_true.mp h o ho)))

end Sheens.C09
