import Sheens.Oracle
import Sheens.Proofs.Fuel
import Sheens.Proofs.OracleSound
import Sheens.Proofs.Terminates

/-!
# The matcher terminates on every input (part of C07), fuel is monotone, the oracle is sound

`matchF` takes a fuel argument because `Matcher.match` re-enters itself on a *bound value*, which
is not structurally smaller than the pattern.  Since the repair "a bound value that looks like a
variable is compared as a constant" (`matchBound`), every re-entry on a bound value is followed by a
descent into a strictly smaller part of the message, so the recursion is bounded for **all**
patterns, messages and bindings — no well-formedness hypothesis.
-/

namespace Sheens.MatchTotal

/-- More fuel never changes a result that is not `diverge`. -/
theorem matchF_mono (n : Nat) (p f : V) (bs : Bs) (r : MRes)
    (h : matchF n p f bs = r) (hr : r ≠ .diverge) : matchF (n+1) p f bs = r := by
  subst h
  exact (Sheens.Total.mono_all n).1 p f bs hr

theorem matchF_mono_le (n m : Nat) (p f : V) (bs : Bs) (r : MRes) (hle : n ≤ m)
    (h : matchF n p f bs = r) (hr : r ≠ .diverge) : matchF m p f bs = r := by
  subst h
  exact Sheens.Total.matchF_le hle hr

/-- The matcher terminates: for every pattern, message and bindings there is a fuel bound from which
    on the result is not `diverge` (in Go: the recursion is bounded, no stack overflow). -/
theorem matchF_terminates (p f : V) (bs : Bs) : ∃ N, ∀ n, N ≤ n → matchF n p f bs ≠ .diverge :=
  Sheens.Total.termMsg_all f p bs

/-- The executable oracle used on the implementation's outputs is sound for `Sat`. -/
theorem satB_sound (n : Nat) (bs₀ r : Bs) (p f : V) (h : satB n bs₀ r p f = true) : Sat bs₀ r p f :=
  (Sheens.Total.oracle_all bs₀ r n).1 p f h

end Sheens.MatchTotal
