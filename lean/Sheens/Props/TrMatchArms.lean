import Sheens.GoSem
import Sheens.Gen.GoAst
import Sheens.Match
import Sheens.Props.TrMatch
import Sheens.Props.TrIneq
open Go Gen.GoAst

/-!
# Tie C, proved part: the non-recursive arms of the translated `Matcher.match`

On the declaration of `match` that `go/go2lean` regenerated from `match/match.go`: scalar patterns
(`tr_match_scalar`), constant strings (`tr_match_const`), the anonymous variable (`tr_match_anon`)
and a variable that is not bound yet (`tr_match_fresh_var`: the message value is stored under it in
the bindings map that was passed, which is the one result) — for every message value, heap and
enough fuel.  The inequality arm is `TrIneq.tr_inequal`.  `tr_match_bound`: a bound variable whose
value looks like a variable is compared as a constant, any other bound value is used as the pattern
(`match` calls itself on it with the same message value and bindings) — the clause of the containment
relation `Sat` for variables.  `tr_match_map`: a message value that is not a map does not match a map
pattern, the empty map pattern matches any map, otherwise the answer is `mapcatMatch`'s on the one
bindings map.  The array arm and `mapcatMatch`/`arraycatMatch` themselves are tied by execution only.
-/

namespace Sheens.TrMatch

attribute [local simp] callFn bindParams execB execS execOpt execBlock evalE evalArgs evalOpt eval1 assignAll assignTo
  envGet envSet envLeave builtin typeOf parseTy zeroOf truthy binop goEq keyEq pickCase anyCase Except.map toF64

theorem find_match : findFn matchProg ".match" = some matchProg_Mmatch := by rfl

/-- patterns that are scalars other than strings -/
def ScalarPat : GV → Prop
  | .nil | .bool _ | .f64 _ | .int _ | .numT _ _ => True
  | _ => False

/-- do two scalars match: same kind (after `fudge`) and equal -/
def scalarMatchG (p f : GV) : Bool :=
  match fudgeG p, fudgeG f with
  | .nil, .nil => true
  | .bool a, .bool b => a == b
  | .f64 a, .f64 b => a == b
  | _, _ => false

theorem tr_match_scalar (n : Nat) (g : Env) (H : Heap) (m p f : GV) (ab : Nat) (hp : ScalarPat p) :
    callFn (n + 60) matchProg g ".match" m [p, f, .ref ab] H =
      .ok ([if scalarMatchG p f then .slice [.ref ab] else .nil, .nil], H) := by
  have hf1 : ∀ y, callFn (n + 56) matchProg g "fudge" .nil [y] H = .ok ([fudgeG y], H) := fun y => by
    rw [show n + 56 = (n + 44) + 12 from rfl]; exact tr_fudge _ g y H
  have hf2 : ∀ y, callFn (n + 55) matchProg g "fudge" .nil [y] H = .ok ([fudgeG y], H) := fun y => by
    rw [show n + 55 = (n + 43) + 12 from rfl]; exact tr_fudge _ g y H
  rw [show n + 60 = (n + 59) + 1 from rfl]
  simp only [callFn, find_match]
  simp [-callFn, -typeOf, matchProg_Mmatch]
  rw [hf1 p]
  simp [-callFn, -typeOf]
  rw [hf2 f]
  cases p with
  | nil =>
    cases f with
    | ref a => cases hh : heapGet H a <;> simp [fudgeG, scalarMatchG, hh]
    | _ => simp [fudgeG, scalarMatchG]
  | bool b =>
    cases f with
    | ref a => cases hh : heapGet H a <;> simp [fudgeG, scalarMatchG, hh]
    | bool c => by_cases hbc : b = c <;> simp [fudgeG, scalarMatchG, hbc]
    | _ => simp [fudgeG, scalarMatchG]
  | f64 q =>
    cases f with
    | ref a => cases hh : heapGet H a <;> simp [fudgeG, scalarMatchG, hh]
    | f64 r => by_cases hqr : q = r <;> simp [fudgeG, scalarMatchG, hqr]
    | int i => by_cases hqr : q = (i : Rat) <;> simp [fudgeG, scalarMatchG, hqr]
    | numT t i => by_cases hqr : q = (i : Rat) <;> simp [fudgeG, scalarMatchG, hqr]
    | _ => simp [fudgeG, scalarMatchG]
  | int k =>
    cases f with
    | ref a => cases hh : heapGet H a <;> simp [fudgeG, scalarMatchG, hh]
    | f64 r => by_cases hqr : (k : Rat) = r <;> simp [fudgeG, scalarMatchG, hqr]
    | int i => by_cases hqr : (k : Rat) = (i : Rat) <;> simp [fudgeG, scalarMatchG, hqr]
    | numT t i => by_cases hqr : (k : Rat) = (i : Rat) <;> simp [fudgeG, scalarMatchG, hqr]
    | _ => simp [fudgeG, scalarMatchG]
  | numT t k =>
    cases f with
    | ref a => cases hh : heapGet H a <;> simp [fudgeG, scalarMatchG, hh]
    | f64 r => by_cases hqr : (k : Rat) = r <;> simp [fudgeG, scalarMatchG, hqr]
    | int i => by_cases hqr : (k : Rat) = (i : Rat) <;> simp [fudgeG, scalarMatchG, hqr]
    | numT t2 i => by_cases hqr : (k : Rat) = (i : Rat) <;> simp [fudgeG, scalarMatchG, hqr]
    | _ => simp [fudgeG, scalarMatchG]
  | _ => exact absurd hp (by simp [ScalarPat])

def isStrG (x : GV) (s : String) : Bool :=
  match x with
  | .str t => t == s
  | _ => false

/-- a string pattern that is a constant: the message value must be that string -/
theorem tr_match_const (n : Nat) (g : Env) (H : Heap) (m f : GV) (s : String) (ab : Nat) (hs : isVar s = false) :
    callFn (n + 60) matchProg g ".match" m [.str s, f, .ref ab] H =
      .ok ([if isStrG (fudgeG f) s then .slice [.ref ab] else .nil, .nil], H) := by
  have hf1 : ∀ y, callFn (n + 56) matchProg g "fudge" .nil [y] H = .ok ([fudgeG y], H) := fun y => by
    rw [show n + 56 = (n + 44) + 12 from rfl]; exact tr_fudge _ g y H
  have hf2 : ∀ y, callFn (n + 55) matchProg g "fudge" .nil [y] H = .ok ([fudgeG y], H) := fun y => by
    rw [show n + 55 = (n + 43) + 12 from rfl]; exact tr_fudge _ g y H
  rw [show n + 60 = (n + 59) + 1 from rfl]
  simp only [callFn, find_match]
  simp [-callFn, -typeOf, matchProg_Mmatch]
  rw [hf1 (.str s)]
  simp [-callFn, -typeOf]
  rw [hf2 f]
  have hfs : fudgeG (.str s) = .str s := rfl
  simp [-callFn, hfs]
  rw [show n + 46 = (n + 26) + 20 from rfl, tr_IsConstant]
  generalize fudgeG f = ff
  cases ff with
  | ref a => cases hh : heapGet H a <;> simp [hs, hh, isStrG]
  | str t =>
    by_cases hst : s = t
    · subst hst; simp [hs, isStrG]
    · have hts : ¬ t = s := fun h => hst h.symm
      simp [hs, hst, hts, isStrG]
  | _ => simp [hs, isStrG]

/-- the anonymous variable matches anything and binds nothing -/
theorem tr_match_anon (n : Nat) (g : Env) (H : Heap) (m f : GV) (ab : Nat) :
    callFn (n + 60) matchProg g ".match" m [.str "?", f, .ref ab] H = .ok ([.slice [.ref ab], .nil], H) := by
  have hf1 : ∀ y, callFn (n + 56) matchProg g "fudge" .nil [y] H = .ok ([fudgeG y], H) := fun y => by
    rw [show n + 56 = (n + 44) + 12 from rfl]; exact tr_fudge _ g y H
  have hf2 : ∀ y, callFn (n + 55) matchProg g "fudge" .nil [y] H = .ok ([fudgeG y], H) := fun y => by
    rw [show n + 55 = (n + 43) + 12 from rfl]; exact tr_fudge _ g y H
  rw [show n + 60 = (n + 59) + 1 from rfl]
  simp only [callFn, find_match]
  simp [-callFn, -typeOf, matchProg_Mmatch]
  rw [hf1 (.str "?")]
  simp [-callFn, -typeOf]
  rw [hf2 f]
  have hfs : fudgeG (.str "?") = .str "?" := rfl
  simp [-callFn, hfs]
  rw [show n + 46 = (n + 26) + 20 from rfl, tr_IsConstant]
  have hv : isVar "?" = true := by decide
  simp [-callFn, hv]
  rw [show n + 43 = (n + 33) + 10 from rfl, tr_IsAnonymousVariable]
  simp [isAnon]

/-- a variable that is not bound yet (and is not the anonymous one): the message value is bound to
    it, in the bindings map that was passed, and that map is the one result -/
theorem tr_match_fresh_var (n : Nat) (g : Env) (H : Heap) (f : GV) (v : String) (am ab : Nat) (mo bo : MapObj)
    (hm : heapGet H am = some mo) (hI : mlookup (.str "Inequalities") mo.kvs = some (.bool true))
    (hb : heapGet H ab = some bo) (hv : isVar v = true) (hanon : isAnon v = false)
    (hfree : mlookup (.str v) bo.kvs = none) :
    callFn (n + 100) matchProg g ".match" (.ref am) [.str v, f, .ref ab] H =
      .ok ([.slice [.ref ab], .nil], heapSet H ab { bo with kvs := minsert (.str v) (fudgeG f) bo.kvs }) := by
  have hf1 : ∀ y, callFn (n + 96) matchProg g "fudge" .nil [y] H = .ok ([fudgeG y], H) := fun y => by
    rw [show n + 96 = (n + 84) + 12 from rfl]; exact tr_fudge _ g y H
  have hf2 : ∀ y, callFn (n + 95) matchProg g "fudge" .nil [y] H = .ok ([fudgeG y], H) := fun y => by
    rw [show n + 95 = (n + 83) + 12 from rfl]; exact tr_fudge _ g y H
  have hineq := Sheens.TrIneq.tr_inequal (n + 5) g H am ab mo bo (fudgeG f) v hm hI hb hv
  have hnot : Sheens.TrIneq.inequalG (fudgeG f) bo.kvs v = .notUsing := by
    simp [Sheens.TrIneq.inequalG, hfree]
  rw [hnot] at hineq
  rw [show n + 100 = (n + 99) + 1 from rfl]
  simp only [callFn, find_match]
  simp [-callFn, -typeOf, matchProg_Mmatch]
  rw [hf1 (.str v)]
  simp [-callFn, -typeOf]
  rw [hf2 f]
  have hfs : fudgeG (.str v) = .str v := rfl
  simp [-callFn, hfs]
  rw [show n + 86 = (n + 66) + 20 from rfl, tr_IsConstant]
  simp [-callFn, hv]
  rw [show n + 83 = (n + 73) + 10 from rfl, tr_IsAnonymousVariable]
  simp [-callFn, hanon]
  rw [show n + 81 = n + 5 + 76 from rfl, hineq]
  simp [Sheens.TrIneq.ineqResult, indexV, hb, hfree]

/-- a variable that is bound, where the inequality test does not apply: a bound value that looks like
    a variable is compared as a constant; any other bound value is used as the pattern (`match` calls
    itself on it, with the same message value and bindings) -/
theorem tr_match_bound (n : Nat) (g : Env) (H : Heap) (f x : GV) (v : String) (am ab : Nat) (mo bo : MapObj)
    (hm : heapGet H am = some mo) (hI : mlookup (.str "Inequalities") mo.kvs = some (.bool true))
    (hb : heapGet H ab = some bo) (hv : isVar v = true) (hanon : isAnon v = false)
    (hbound : mlookup (.str v) bo.kvs = some x)
    (hnot : Sheens.TrIneq.inequalG (fudgeG f) bo.kvs v = .notUsing)
    (RHS : R (List GV × Heap))
    (hR : (match x with
       | .str s =>
         if isVar s then (.ok ([if isStrG (fudgeG f) s then .slice [.ref ab] else .nil, .nil], H) : R (List GV × Heap))
         else callFn (n + 77) matchProg g ".match" (.ref am) [x, fudgeG f, .ref ab] H
       | _ => callFn (n + 77) matchProg g ".match" (.ref am) [x, fudgeG f, .ref ab] H) = RHS) :
    callFn (n + 100) matchProg g ".match" (.ref am) [.str v, f, .ref ab] H = RHS := by
  have hf1 : ∀ y, callFn (n + 96) matchProg g "fudge" .nil [y] H = .ok ([fudgeG y], H) := fun y => by
    rw [show n + 96 = (n + 84) + 12 from rfl]; exact tr_fudge _ g y H
  have hf2 : ∀ y, callFn (n + 95) matchProg g "fudge" .nil [y] H = .ok ([fudgeG y], H) := fun y => by
    rw [show n + 95 = (n + 83) + 12 from rfl]; exact tr_fudge _ g y H
  have hineq := Sheens.TrIneq.tr_inequal (n + 5) g H am ab mo bo (fudgeG f) v hm hI hb hv
  rw [hnot] at hineq
  rw [show n + 100 = (n + 99) + 1 from rfl]
  simp only [callFn, find_match]
  simp [-callFn, -typeOf, matchProg_Mmatch]
  rw [hf1 (.str v)]
  simp [-callFn, -typeOf]
  rw [hf2 f]
  have hfs : fudgeG (.str v) = .str v := rfl
  simp [-callFn, hfs]
  rw [show n + 86 = (n + 66) + 20 from rfl, tr_IsConstant]
  simp [-callFn, hv]
  rw [show n + 83 = (n + 73) + 10 from rfl, tr_IsAnonymousVariable]
  simp [-callFn, hanon]
  rw [show n + 81 = n + 5 + 76 from rfl, hineq]
  have hvcall : ∀ s, callFn (n + 76) matchProg g ".IsVariable" (.ref am) [.str s] H = .ok ([.bool (isVar s)], H) := fun s => by
    rw [show n + 76 = (n + 66) + 10 from rfl]; exact tr_IsVariable _ g (.ref am) s H
  cases x with
  | str s =>
    by_cases hs : isVar s = true
    · simp only [hs, if_true] at hR
      simp [-callFn, Sheens.TrIneq.ineqResult, indexV, hb, hbound]
      rw [hvcall s]
      generalize fudgeG f = ff at hR ⊢
      cases ff with
      | ref a => cases hh : heapGet H a <;> simp [-callFn, hs, hh, isStrG] at hR ⊢ <;> (try exact hR)
      | str t =>
        by_cases hst : t = s
        · subst hst; simp [-callFn, hs, isStrG] at hR ⊢ <;> (try exact hR)
        · simp [-callFn, hs, hst, isStrG] at hR ⊢ <;> (try exact hR)
      | _ => simp [-callFn, hs, isStrG] at hR ⊢ <;> (try exact hR)
    · have hs' : isVar s = false := by simpa using hs
      simp only [hs', Bool.false_eq_true, if_false] at hR
      simp [-callFn, Sheens.TrIneq.ineqResult, indexV, hb, hbound]
      rw [hvcall s]
      simp [-callFn, hs']
      refine Eq.trans ?_ hR
      cases callFn (n + 77) matchProg g ".match" (GV.ref am) [GV.str s, fudgeG f, GV.ref ab] H with
      | error e => rfl
      | ok r => obtain ⟨vs, h1⟩ := r; rfl
  | ref a =>
    simp only at hR
    cases hh : heapGet H a <;>
    · simp [-callFn, Sheens.TrIneq.ineqResult, indexV, hb, hbound, hh]
      refine Eq.trans ?_ hR
      cases callFn (n + 77) matchProg g ".match" (GV.ref am) [GV.ref a, fudgeG f, GV.ref ab] H with
      | error e => rfl
      | ok r => obtain ⟨vs, h1⟩ := r; rfl
  | nil =>
    simp only at hR
    simp [-callFn, Sheens.TrIneq.ineqResult, indexV, hb, hbound]
    refine Eq.trans ?_ hR
    cases callFn (n + 77) matchProg g ".match" (GV.ref am) [GV.nil, fudgeG f, GV.ref ab] H with
    | error e => rfl
    | ok r => obtain ⟨vs, h1⟩ := r; rfl
  | bool b =>
    simp only at hR
    simp [-callFn, Sheens.TrIneq.ineqResult, indexV, hb, hbound]
    refine Eq.trans ?_ hR
    cases callFn (n + 77) matchProg g ".match" (GV.ref am) [GV.bool b, fudgeG f, GV.ref ab] H with
    | error e' => rfl
    | ok r => obtain ⟨vs, h1⟩ := r; rfl
  | f64 q =>
    simp only at hR
    simp [-callFn, Sheens.TrIneq.ineqResult, indexV, hb, hbound]
    refine Eq.trans ?_ hR
    cases callFn (n + 77) matchProg g ".match" (GV.ref am) [GV.f64 q, fudgeG f, GV.ref ab] H with
    | error e' => rfl
    | ok r => obtain ⟨vs, h1⟩ := r; rfl
  | int i =>
    simp only at hR
    simp [-callFn, Sheens.TrIneq.ineqResult, indexV, hb, hbound]
    refine Eq.trans ?_ hR
    cases callFn (n + 77) matchProg g ".match" (GV.ref am) [GV.int i, fudgeG f, GV.ref ab] H with
    | error e' => rfl
    | ok r => obtain ⟨vs, h1⟩ := r; rfl
  | numT t i =>
    simp only at hR
    simp [-callFn, Sheens.TrIneq.ineqResult, indexV, hb, hbound]
    refine Eq.trans ?_ hR
    cases callFn (n + 77) matchProg g ".match" (GV.ref am) [GV.numT t i, fudgeG f, GV.ref ab] H with
    | error e' => rfl
    | ok r => obtain ⟨vs, h1⟩ := r; rfl
  | slice xs =>
    simp only at hR
    simp [-callFn, Sheens.TrIneq.ineqResult, indexV, hb, hbound]
    refine Eq.trans ?_ hR
    cases callFn (n + 77) matchProg g ".match" (GV.ref am) [GV.slice xs, fudgeG f, GV.ref ab] H with
    | error e' => rfl
    | ok r => obtain ⟨vs, h1⟩ := r; rfl
  | err e =>
    simp only at hR
    simp [-callFn, Sheens.TrIneq.ineqResult, indexV, hb, hbound]
    refine Eq.trans ?_ hR
    cases callFn (n + 77) matchProg g ".match" (GV.ref am) [GV.err e, fudgeG f, GV.ref ab] H with
    | error e' => rfl
    | ok r => obtain ⟨vs, h1⟩ := r; rfl
  | other t =>
    simp only at hR
    simp [-callFn, Sheens.TrIneq.ineqResult, indexV, hb, hbound]
    refine Eq.trans ?_ hR
    cases callFn (n + 77) matchProg g ".match" (GV.ref am) [GV.other t, fudgeG f, GV.ref ab] H with
    | error e' => rfl
    | ok r => obtain ⟨vs, h1⟩ := r; rfl


/-- a map pattern: a message value that is not a map does not match; the empty map pattern matches
    any map; otherwise the answer is `mapcatMatch`'s on the one bindings map -/
theorem tr_match_map (n : Nat) (g : Env) (H : Heap) (m f : GV) (pa ab : Nat) (po : MapObj)
    (hp : heapGet H pa = some po) (hpt : po.ty = "map[string]interface{}")
    (RHS : R (List GV × Heap))
    (hR : (match f with
       | .ref fa =>
         (match heapGet H fa with
          | some fo =>
            if fo.ty = "map[string]interface{}" then
              (if po.kvs.length = 0 then (.ok ([.slice [.ref ab], .nil], H) : R (List GV × Heap))
               else callFn (n + 39) matchProg g ".mapcatMatch" m [.slice [.ref ab], .ref pa, .ref fa] H)
            else .ok ([.nil, .nil], H)
          | none => .ok ([.nil, .nil], H))
       | _ => .ok ([.nil, .nil], H)) = RHS) :
    callFn (n + 60) matchProg g ".match" m [.ref pa, f, .ref ab] H = RHS := by
  have hf1 : ∀ y, callFn (n + 56) matchProg g "fudge" .nil [y] H = .ok ([fudgeG y], H) := fun y => by
    rw [show n + 56 = (n + 44) + 12 from rfl]; exact tr_fudge _ g y H
  have hf2 : ∀ y, callFn (n + 55) matchProg g "fudge" .nil [y] H = .ok ([fudgeG y], H) := fun y => by
    rw [show n + 55 = (n + 43) + 12 from rfl]; exact tr_fudge _ g y H
  have hfp : fudgeG (.ref pa) = .ref pa := rfl
  obtain ⟨pty, pkvs⟩ := po
  simp only at hpt
  subst hpt
  rw [show n + 60 = (n + 59) + 1 from rfl]
  simp only [callFn, find_match]
  simp [-callFn, -typeOf, matchProg_Mmatch]
  rw [hf1 (.ref pa)]
  simp [-callFn, -typeOf, hfp]
  rw [hf2 f]
  cases f with
  | ref fa =>
    have hff : fudgeG (.ref fa) = .ref fa := rfl
    cases hfo : heapGet H fa with
    | none =>
      simp only [hfo] at hR
      simp [-callFn, hff, hp, hfo]
      exact hR
    | some fo =>
      simp only [hfo] at hR
      obtain ⟨fty, fkvs⟩ := fo
      by_cases hft : fty = "map[string]interface{}"
      · subst hft
        simp only [if_true] at hR
        by_cases hlen : pkvs.length = 0
        · simp only [hlen] at hR
          try simp only [if_true] at hR
          have hnil : pkvs = [] := List.eq_nil_of_length_eq_zero hlen
          subst hnil
          simp [-callFn, hff, hp, hfo, goLen]
          exact hR
        · simp only [hlen] at hR
          try simp only [if_false] at hR
          have hl0 : ¬ ((0 : Int) = (pkvs.length : Int)) := by omega
          simp [-callFn, hff, hp, hfo, goLen, hl0, hlen]
          refine Eq.trans ?_ hR
          cases callFn (n + 39) matchProg g ".mapcatMatch" m [GV.slice [GV.ref ab], GV.ref pa, GV.ref fa] H with
          | error e => rfl
          | ok r => obtain ⟨vs, h1⟩ := r; rfl
      · simp only [hft, if_false] at hR
        have hft' : ¬ "map[string]interface{}" = fty := fun h => hft h.symm
        simp [-callFn, hff, hp, hfo, hft, hft']
        exact hR
  | nil =>
    simp only at hR
    simp [-callFn, fudgeG, hp]
    exact hR
  | bool b =>
    simp only at hR
    simp [-callFn, fudgeG, hp]
    exact hR
  | f64 q =>
    simp only at hR
    simp [-callFn, fudgeG, hp]
    exact hR
  | int i =>
    simp only at hR
    simp [-callFn, fudgeG, hp]
    exact hR
  | numT t i =>
    simp only at hR
    simp [-callFn, fudgeG, hp]
    exact hR
  | str t =>
    simp only at hR
    simp [-callFn, fudgeG, hp]
    exact hR
  | slice xs =>
    simp only at hR
    simp [-callFn, fudgeG, hp]
    exact hR
  | err e =>
    simp only at hR
    simp [-callFn, fudgeG, hp]
    exact hR
  | other t =>
    simp only at hR
    simp [-callFn, fudgeG, hp]
    exact hR


end Sheens.TrMatch
