import Sheens.GoSem
import Sheens.Gen.GoAst
import Sheens.Match
import Sheens.Props.TrMatch
import Sheens.Props.TrIneq
open Go Gen.GoAst

/-!
# Tie C, proved part: the non-recursive arms of the translated `Matcher.match`

On the declaration of `match` that `go/go2lean` regenerated from `match/match.go`: scalar patterns
(`tr_match_scalar`), constant strings (`tr_match_const`), the anonymous variable (`tr_match_anon`)
and a variable that is not bound yet (`tr_match_fresh_var`: the message value is stored under it in
the bindings map that was passed, which is the one result) — for every message value, heap and
enough fuel.  The inequality arm is `TrIneq.tr_inequal`.  `tr_match_bound`: a bound variable whose
value looks like a variable is compared as a constant, any other bound value is used as the pattern
(`match` calls itself on it with the same message value and bindings) — the clause of the containment
relation `Sat` for variables.  `tr_match_map`: a message value that is not a map does not match a map
pattern, the empty map pattern matches any map, otherwise the answer is `mapcatMatch`'s on the one
bindings map.  `tr_mapcatMatch_const`: `mapcatMatch` on a pattern whose keys are all constants, relative
to what `matchWithBindingss` does (`mcSpec`).  The array arm, the property-variable case of
`mapcatMatch` and `arraycatMatch` are tied by execution only.
-/

namespace Sheens.TrMatch

attribute [local simp] callFn bindParams execB execS execOpt execBlock evalE evalArgs evalOpt eval1 assignAll assignTo
  envGet envSet envLeave builtin typeOf parseTy zeroOf truthy binop goEq keyEq pickCase anyCase Except.map toF64

theorem find_match : findFn matchProg ".match" = some matchProg_Mmatch := by rfl

/-- patterns that are scalars other than strings -/
def ScalarPat : GV → Prop
  | .nil | .bool _ | .f64 _ | .int _ | .numT _ _ => True
  | _ => False

/-- do two scalars match: same kind (after `fudge`) and equal -/
def scalarMatchG (p f : GV) : Bool :=
  match fudgeG p, fudgeG f with
  | .nil, .nil => true
  | .bool a, .bool b => a == b
  | .f64 a, .f64 b => a == b
  | _, _ => false

theorem tr_match_scalar (n : Nat) (g : Env) (H : Heap) (m p f : GV) (ab : Nat) (hp : ScalarPat p) :
    callFn (n + 60) matchProg g ".match" m [p, f, .ref ab] H =
      .ok ([if scalarMatchG p f then .slice [.ref ab] else .nil, .nil], H) := by
  have hf1 : ∀ y, callFn (n + 56) matchProg g "fudge" .nil [y] H = .ok ([fudgeG y], H) := fun y => by
    rw [show n + 56 = (n + 44) + 12 from rfl]; exact tr_fudge _ g y H
  have hf2 : ∀ y, callFn (n + 55) matchProg g "fudge" .nil [y] H = .ok ([fudgeG y], H) := fun y => by
    rw [show n + 55 = (n + 43) + 12 from rfl]; exact tr_fudge _ g y H
  rw [show n + 60 = (n + 59) + 1 from rfl]
  simp only [callFn, find_match]
  simp [-callFn, -typeOf, matchProg_Mmatch]
  rw [hf1 p]
  simp [-callFn, -typeOf]
  rw [hf2 f]
  cases p with
  | nil =>
    cases f with
    | ref a => cases hh : heapGet H a <;> simp [fudgeG, scalarMatchG, hh]
    | _ => simp [fudgeG, scalarMatchG]
  | bool b =>
    cases f with
    | ref a => cases hh : heapGet H a <;> simp [fudgeG, scalarMatchG, hh]
    | bool c => by_cases hbc : b = c <;> simp [fudgeG, scalarMatchG, hbc]
    | _ => simp [fudgeG, scalarMatchG]
  | f64 q =>
    cases f with
    | ref a => cases hh : heapGet H a <;> simp [fudgeG, scalarMatchG, hh]
    | f64 r => by_cases hqr : q = r <;> simp [fudgeG, scalarMatchG, hqr]
    | int i => by_cases hqr : q = (i : Rat) <;> simp [fudgeG, scalarMatchG, hqr]
    | numT t i => by_cases hqr : q = (i : Rat) <;> simp [fudgeG, scalarMatchG, hqr]
    | _ => simp [fudgeG, scalarMatchG]
  | int k =>
    cases f with
    | ref a => cases hh : heapGet H a <;> simp [fudgeG, scalarMatchG, hh]
    | f64 r => by_cases hqr : (k : Rat) = r <;> simp [fudgeG, scalarMatchG, hqr]
    | int i => by_cases hqr : (k : Rat) = (i : Rat) <;> simp [fudgeG, scalarMatchG, hqr]
    | numT t i => by_cases hqr : (k : Rat) = (i : Rat) <;> simp [fudgeG, scalarMatchG, hqr]
    | _ => simp [fudgeG, scalarMatchG]
  | numT t k =>
    cases f with
    | ref a => cases hh : heapGet H a <;> simp [fudgeG, scalarMatchG, hh]
    | f64 r => by_cases hqr : (k : Rat) = r <;> simp [fudgeG, scalarMatchG, hqr]
    | int i => by_cases hqr : (k : Rat) = (i : Rat) <;> simp [fudgeG, scalarMatchG, hqr]
    | numT t2 i => by_cases hqr : (k : Rat) = (i : Rat) <;> simp [fudgeG, scalarMatchG, hqr]
    | _ => simp [fudgeG, scalarMatchG]
  | _ => exact absurd hp (by simp [ScalarPat])

def isStrG (x : GV) (s : String) : Bool :=
  match x with
  | .str t => t == s
  | _ => false

/-- a string pattern that is a constant: the message value must be that string -/
theorem tr_match_const (n : Nat) (g : Env) (H : Heap) (m f : GV) (s : String) (ab : Nat) (hs : isVar s = false) :
    callFn (n + 60) matchProg g ".match" m [.str s, f, .ref ab] H =
      .ok ([if isStrG (fudgeG f) s then .slice [.ref ab] else .nil, .nil], H) := by
  have hf1 : ∀ y, callFn (n + 56) matchProg g "fudge" .nil [y] H = .ok ([fudgeG y], H) := fun y => by
    rw [show n + 56 = (n + 44) + 12 from rfl]; exact tr_fudge _ g y H
  have hf2 : ∀ y, callFn (n + 55) matchProg g "fudge" .nil [y] H = .ok ([fudgeG y], H) := fun y => by
    rw [show n + 55 = (n + 43) + 12 from rfl]; exact tr_fudge _ g y H
  rw [show n + 60 = (n + 59) + 1 from rfl]
  simp only [callFn, find_match]
  simp [-callFn, -typeOf, matchProg_Mmatch]
  rw [hf1 (.str s)]
  simp [-callFn, -typeOf]
  rw [hf2 f]
  have hfs : fudgeG (.str s) = .str s := rfl
  simp [-callFn, hfs]
  rw [show n + 46 = (n + 26) + 20 from rfl, tr_IsConstant]
  generalize fudgeG f = ff
  cases ff with
  | ref a => cases hh : heapGet H a <;> simp [hs, hh, isStrG]
  | str t =>
    by_cases hst : s = t
    · subst hst; simp [hs, isStrG]
    · have hts : ¬ t = s := fun h => hst h.symm
      simp [hs, hst, hts, isStrG]
  | _ => simp [hs, isStrG]

/-- the anonymous variable matches anything and binds nothing -/
theorem tr_match_anon (n : Nat) (g : Env) (H : Heap) (m f : GV) (ab : Nat) :
    callFn (n + 60) matchProg g ".match" m [.str "?", f, .ref ab] H = .ok ([.slice [.ref ab], .nil], H) := by
  have hf1 : ∀ y, callFn (n + 56) matchProg g "fudge" .nil [y] H = .ok ([fudgeG y], H) := fun y => by
    rw [show n + 56 = (n + 44) + 12 from rfl]; exact tr_fudge _ g y H
  have hf2 : ∀ y, callFn (n + 55) matchProg g "fudge" .nil [y] H = .ok ([fudgeG y], H) := fun y => by
    rw [show n + 55 = (n + 43) + 12 from rfl]; exact tr_fudge _ g y H
  rw [show n + 60 = (n + 59) + 1 from rfl]
  simp only [callFn, find_match]
  simp [-callFn, -typeOf, matchProg_Mmatch]
  rw [hf1 (.str "?")]
  simp [-callFn, -typeOf]
  rw [hf2 f]
  have hfs : fudgeG (.str "?") = .str "?" := rfl
  simp [-callFn, hfs]
  rw [show n + 46 = (n + 26) + 20 from rfl, tr_IsConstant]
  have hv : isVar "?" = true := by decide
  simp [-callFn, hv]
  rw [show n + 43 = (n + 33) + 10 from rfl, tr_IsAnonymousVariable]
  simp [isAnon]

/-- a variable that is not bound yet (and is not the anonymous one): the message value is bound to
    it, in the bindings map that was passed, and that map is the one result -/
theorem tr_match_fresh_var (n : Nat) (g : Env) (H : Heap) (f : GV) (v : String) (am ab : Nat) (mo bo : MapObj)
    (hm : heapGet H am = some mo) (hI : mlookup (.str "Inequalities") mo.kvs = some (.bool true))
    (hb : heapGet H ab = some bo) (hv : isVar v = true) (hanon : isAnon v = false)
    (hfree : mlookup (.str v) bo.kvs = none) :
    callFn (n + 100) matchProg g ".match" (.ref am) [.str v, f, .ref ab] H =
      .ok ([.slice [.ref ab], .nil], heapSet H ab { bo with kvs := minsert (.str v) (fudgeG f) bo.kvs }) := by
  have hf1 : ∀ y, callFn (n + 96) matchProg g "fudge" .nil [y] H = .ok ([fudgeG y], H) := fun y => by
    rw [show n + 96 = (n + 84) + 12 from rfl]; exact tr_fudge _ g y H
  have hf2 : ∀ y, callFn (n + 95) matchProg g "fudge" .nil [y] H = .ok ([fudgeG y], H) := fun y => by
    rw [show n + 95 = (n + 83) + 12 from rfl]; exact tr_fudge _ g y H
  have hineq := Sheens.TrIneq.tr_inequal (n + 5) g H am ab mo bo (fudgeG f) v hm hI hb hv
  have hnot : Sheens.TrIneq.inequalG (fudgeG f) bo.kvs v = .notUsing := by
    simp [Sheens.TrIneq.inequalG, hfree]
  rw [hnot] at hineq
  rw [show n + 100 = (n + 99) + 1 from rfl]
  simp only [callFn, find_match]
  simp [-callFn, -typeOf, matchProg_Mmatch]
  rw [hf1 (.str v)]
  simp [-callFn, -typeOf]
  rw [hf2 f]
  have hfs : fudgeG (.str v) = .str v := rfl
  simp [-callFn, hfs]
  rw [show n + 86 = (n + 66) + 20 from rfl, tr_IsConstant]
  simp [-callFn, hv]
  rw [show n + 83 = (n + 73) + 10 from rfl, tr_IsAnonymousVariable]
  simp [-callFn, hanon]
  rw [show n + 81 = n + 5 + 76 from rfl, hineq]
  simp [Sheens.TrIneq.ineqResult, indexV, hb, hfree]

/-- a variable that is bound, where the inequality test does not apply: a bound value that looks like
    a variable is compared as a constant; any other bound value is used as the pattern (`match` calls
    itself on it, with the same message value and bindings) -/
theorem tr_match_bound (n : Nat) (g : Env) (H : Heap) (f x : GV) (v : String) (am ab : Nat) (mo bo : MapObj)
    (hm : heapGet H am = some mo) (hI : mlookup (.str "Inequalities") mo.kvs = some (.bool true))
    (hb : heapGet H ab = some bo) (hv : isVar v = true) (hanon : isAnon v = false)
    (hbound : mlookup (.str v) bo.kvs = some x)
    (hnot : Sheens.TrIneq.inequalG (fudgeG f) bo.kvs v = .notUsing)
    (RHS : R (List GV × Heap))
    (hR : (match x with
       | .str s =>
         if isVar s then (.ok ([if isStrG (fudgeG f) s then .slice [.ref ab] else .nil, .nil], H) : R (List GV × Heap))
         else callFn (n + 77) matchProg g ".match" (.ref am) [x, fudgeG f, .ref ab] H
       | _ => callFn (n + 77) matchProg g ".match" (.ref am) [x, fudgeG f, .ref ab] H) = RHS) :
    callFn (n + 100) matchProg g ".match" (.ref am) [.str v, f, .ref ab] H = RHS := by
  have hf1 : ∀ y, callFn (n + 96) matchProg g "fudge" .nil [y] H = .ok ([fudgeG y], H) := fun y => by
    rw [show n + 96 = (n + 84) + 12 from rfl]; exact tr_fudge _ g y H
  have hf2 : ∀ y, callFn (n + 95) matchProg g "fudge" .nil [y] H = .ok ([fudgeG y], H) := fun y => by
    rw [show n + 95 = (n + 83) + 12 from rfl]; exact tr_fudge _ g y H
  have hineq := Sheens.TrIneq.tr_inequal (n + 5) g H am ab mo bo (fudgeG f) v hm hI hb hv
  rw [hnot] at hineq
  rw [show n + 100 = (n + 99) + 1 from rfl]
  simp only [callFn, find_match]
  simp [-callFn, -typeOf, matchProg_Mmatch]
  rw [hf1 (.str v)]
  simp [-callFn, -typeOf]
  rw [hf2 f]
  have hfs : fudgeG (.str v) = .str v := rfl
  simp [-callFn, hfs]
  rw [show n + 86 = (n + 66) + 20 from rfl, tr_IsConstant]
  simp [-callFn, hv]
  rw [show n + 83 = (n + 73) + 10 from rfl, tr_IsAnonymousVariable]
  simp [-callFn, hanon]
  rw [show n + 81 = n + 5 + 76 from rfl, hineq]
  have hvcall : ∀ s, callFn (n + 76) matchProg g ".IsVariable" (.ref am) [.str s] H = .ok ([.bool (isVar s)], H) := fun s => by
    rw [show n + 76 = (n + 66) + 10 from rfl]; exact tr_IsVariable _ g (.ref am) s H
  cases x with
  | str s =>
    by_cases hs : isVar s = true
    · simp only [hs, if_true] at hR
      simp [-callFn, Sheens.TrIneq.ineqResult, indexV, hb, hbound]
      rw [hvcall s]
      generalize fudgeG f = ff at hR ⊢
      cases ff with
      | ref a => cases hh : heapGet H a <;> simp [-callFn, hs, hh, isStrG] at hR ⊢ <;> (try exact hR)
      | str t =>
        by_cases hst : t = s
        · subst hst; simp [-callFn, hs, isStrG] at hR ⊢ <;> (try exact hR)
        · simp [-callFn, hs, hst, isStrG] at hR ⊢ <;> (try exact hR)
      | _ => simp [-callFn, hs, isStrG] at hR ⊢ <;> (try exact hR)
    · have hs' : isVar s = false := by simpa using hs
      simp only [hs', Bool.false_eq_true, if_false] at hR
      simp [-callFn, Sheens.TrIneq.ineqResult, indexV, hb, hbound]
      rw [hvcall s]
      simp [-callFn, hs']
      refine Eq.trans ?_ hR
      cases callFn (n + 77) matchProg g ".match" (GV.ref am) [GV.str s, fudgeG f, GV.ref ab] H with
      | error e => rfl
      | ok r => obtain ⟨vs, h1⟩ := r; rfl
  | ref a =>
    simp only at hR
    cases hh : heapGet H a <;>
    · simp [-callFn, Sheens.TrIneq.ineqResult, indexV, hb, hbound, hh]
      refine Eq.trans ?_ hR
      cases callFn (n + 77) matchProg g ".match" (GV.ref am) [GV.ref a, fudgeG f, GV.ref ab] H with
      | error e => rfl
      | ok r => obtain ⟨vs, h1⟩ := r; rfl
  | nil =>
    simp only at hR
    simp [-callFn, Sheens.TrIneq.ineqResult, indexV, hb, hbound]
    refine Eq.trans ?_ hR
    cases callFn (n + 77) matchProg g ".match" (GV.ref am) [GV.nil, fudgeG f, GV.ref ab] H with
    | error e => rfl
    | ok r => obtain ⟨vs, h1⟩ := r; rfl
  | bool b =>
    simp only at hR
    simp [-callFn, Sheens.TrIneq.ineqResult, indexV, hb, hbound]
    refine Eq.trans ?_ hR
    cases callFn (n + 77) matchProg g ".match" (GV.ref am) [GV.bool b, fudgeG f, GV.ref ab] H with
    | error e' => rfl
    | ok r => obtain ⟨vs, h1⟩ := r; rfl
  | f64 q =>
    simp only at hR
    simp [-callFn, Sheens.TrIneq.ineqResult, indexV, hb, hbound]
    refine Eq.trans ?_ hR
    cases callFn (n + 77) matchProg g ".match" (GV.ref am) [GV.f64 q, fudgeG f, GV.ref ab] H with
    | error e' => rfl
    | ok r => obtain ⟨vs, h1⟩ := r; rfl
  | int i =>
    simp only at hR
    simp [-callFn, Sheens.TrIneq.ineqResult, indexV, hb, hbound]
    refine Eq.trans ?_ hR
    cases callFn (n + 77) matchProg g ".match" (GV.ref am) [GV.int i, fudgeG f, GV.ref ab] H with
    | error e' => rfl
    | ok r => obtain ⟨vs, h1⟩ := r; rfl
  | numT t i =>
    simp only at hR
    simp [-callFn, Sheens.TrIneq.ineqResult, indexV, hb, hbound]
    refine Eq.trans ?_ hR
    cases callFn (n + 77) matchProg g ".match" (GV.ref am) [GV.numT t i, fudgeG f, GV.ref ab] H with
    | error e' => rfl
    | ok r => obtain ⟨vs, h1⟩ := r; rfl
  | slice xs =>
    simp only at hR
    simp [-callFn, Sheens.TrIneq.ineqResult, indexV, hb, hbound]
    refine Eq.trans ?_ hR
    cases callFn (n + 77) matchProg g ".match" (GV.ref am) [GV.slice xs, fudgeG f, GV.ref ab] H with
    | error e' => rfl
    | ok r => obtain ⟨vs, h1⟩ := r; rfl
  | err e =>
    simp only at hR
    simp [-callFn, Sheens.TrIneq.ineqResult, indexV, hb, hbound]
    refine Eq.trans ?_ hR
    cases callFn (n + 77) matchProg g ".match" (GV.ref am) [GV.err e, fudgeG f, GV.ref ab] H with
    | error e' => rfl
    | ok r => obtain ⟨vs, h1⟩ := r; rfl
  | other t =>
    simp only at hR
    simp [-callFn, Sheens.TrIneq.ineqResult, indexV, hb, hbound]
    refine Eq.trans ?_ hR
    cases callFn (n + 77) matchProg g ".match" (GV.ref am) [GV.other t, fudgeG f, GV.ref ab] H with
    | error e' => rfl
    | ok r => obtain ⟨vs, h1⟩ := r; rfl


/-- a map pattern: a message value that is not a map does not match; the empty map pattern matches
    any map; otherwise the answer is `mapcatMatch`'s on the one bindings map -/
theorem tr_match_map (n : Nat) (g : Env) (H : Heap) (m f : GV) (pa ab : Nat) (po : MapObj)
    (hp : heapGet H pa = some po) (hpt : po.ty = "map[string]interface{}")
    (RHS : R (List GV × Heap))
    (hR : (match f with
       | .ref fa =>
         (match heapGet H fa with
          | some fo =>
            if fo.ty = "map[string]interface{}" then
              (if po.kvs.length = 0 then (.ok ([.slice [.ref ab], .nil], H) : R (List GV × Heap))
               else callFn (n + 39) matchProg g ".mapcatMatch" m [.slice [.ref ab], .ref pa, .ref fa] H)
            else .ok ([.nil, .nil], H)
          | none => .ok ([.nil, .nil], H))
       | _ => .ok ([.nil, .nil], H)) = RHS) :
    callFn (n + 60) matchProg g ".match" m [.ref pa, f, .ref ab] H = RHS := by
  have hf1 : ∀ y, callFn (n + 56) matchProg g "fudge" .nil [y] H = .ok ([fudgeG y], H) := fun y => by
    rw [show n + 56 = (n + 44) + 12 from rfl]; exact tr_fudge _ g y H
  have hf2 : ∀ y, callFn (n + 55) matchProg g "fudge" .nil [y] H = .ok ([fudgeG y], H) := fun y => by
    rw [show n + 55 = (n + 43) + 12 from rfl]; exact tr_fudge _ g y H
  have hfp : fudgeG (.ref pa) = .ref pa := rfl
  obtain ⟨pty, pkvs⟩ := po
  simp only at hpt
  subst hpt
  rw [show n + 60 = (n + 59) + 1 from rfl]
  simp only [callFn, find_match]
  simp [-callFn, -typeOf, matchProg_Mmatch]
  rw [hf1 (.ref pa)]
  simp [-callFn, -typeOf, hfp]
  rw [hf2 f]
  cases f with
  | ref fa =>
    have hff : fudgeG (.ref fa) = .ref fa := rfl
    cases hfo : heapGet H fa with
    | none =>
      simp only [hfo] at hR
      simp [-callFn, hff, hp, hfo]
      exact hR
    | some fo =>
      simp only [hfo] at hR
      obtain ⟨fty, fkvs⟩ := fo
      by_cases hft : fty = "map[string]interface{}"
      · subst hft
        simp only [if_true] at hR
        by_cases hlen : pkvs.length = 0
        · simp only [hlen] at hR
          try simp only [if_true] at hR
          have hnil : pkvs = [] := List.eq_nil_of_length_eq_zero hlen
          subst hnil
          simp [-callFn, hff, hp, hfo, goLen]
          exact hR
        · simp only [hlen] at hR
          try simp only [if_false] at hR
          have hl0 : ¬ ((0 : Int) = (pkvs.length : Int)) := by omega
          simp [-callFn, hff, hp, hfo, goLen, hl0, hlen]
          refine Eq.trans ?_ hR
          cases callFn (n + 39) matchProg g ".mapcatMatch" m [GV.slice [GV.ref ab], GV.ref pa, GV.ref fa] H with
          | error e => rfl
          | ok r => obtain ⟨vs, h1⟩ := r; rfl
      · simp only [hft, if_false] at hR
        have hft' : ¬ "map[string]interface{}" = fty := fun h => hft h.symm
        simp [-callFn, hff, hp, hfo, hft, hft']
        exact hR
  | nil =>
    simp only at hR
    simp [-callFn, fudgeG, hp]
    exact hR
  | bool b =>
    simp only at hR
    simp [-callFn, fudgeG, hp]
    exact hR
  | f64 q =>
    simp only at hR
    simp [-callFn, fudgeG, hp]
    exact hR
  | int i =>
    simp only at hR
    simp [-callFn, fudgeG, hp]
    exact hR
  | numT t i =>
    simp only at hR
    simp [-callFn, fudgeG, hp]
    exact hR
  | str t =>
    simp only at hR
    simp [-callFn, fudgeG, hp]
    exact hR
  | slice xs =>
    simp only at hR
    simp [-callFn, fudgeG, hp]
    exact hR
  | err e =>
    simp only at hR
    simp [-callFn, fudgeG, hp]
    exact hR
  | other t =>
    simp only at hR
    simp [-callFn, fudgeG, hp]
    exact hR


/-! ## `mapcatMatch` on constant keys (relative to `matchWithBindingss`) -/

theorem find_mapcat : findFn matchProg ".mapcatMatch" = some matchProg_MmapcatMatch := by rfl

def mcBody : List GS :=
  match matchProg_MmapcatMatch.body with
  | [_, GS.range _ _ _ _ body, _] => body
  | _ => []

/-- `mapcatMatch` on a pattern whose keys are all constants, given what `matchWithBindingss` does
    (`W`): the pattern's entries in iteration order; a key the message lacks ends the match with no
    result unless its value is an optional variable (then it is skipped); the binding sets are
    threaded through `matchWithBindingss`, an empty list of them ends the match with no result, an
    error comes back as it is -/
def mcSpec (W : GV → GV → GV → Heap → R (List GV × Heap)) (fkvs : List (GV × GV)) :
    List (GV × GV) → GV → Heap → R (Flow × GV × Heap)
  | [], bss, H => .ok (.next, bss, H)
  | (k, v) :: rest, bss, H =>
    match mlookup k fkvs with
    | none => if isOptVarG v then mcSpec W fkvs rest bss H else .ok (.ret [.nil, .nil], bss, H)
    | some fv =>
      match W bss v fv H with
      | .error e => .error e
      | .ok ([acc, .nil], H') =>
        (match acc with
         | .nil => .ok (.ret [.nil, .nil], bss, H')
         | .slice [] => .ok (.ret [.nil, .nil], bss, H')
         | .slice (x :: xs) => mcSpec W fkvs rest (.slice (x :: xs)) H'
         | _ => .error (.stuck "len"))
      | .ok ([_, e], H') => .ok (.ret [.nil, e], bss, H')
      | .ok _ => .error (.stuck "assignment count")

theorem mc_loop (g : Env) (m pat : GV) (fa : Nat) (fo : MapObj) (W : GV → GV → GV → Heap → R (List GV × Heap)) (K : Nat)
    (hW : ∀ k, K ≤ k → ∀ bss v fv H, callFn k matchProg g ".matchWithBindingss" m [bss, v, fv] H = W bss v fv H)
    (hfa : ∀ bss v fv H r H', W bss v fv H = .ok (r, H') → heapGet H fa = some fo → heapGet H' fa = some fo)
    (hWs : ∀ bss v fv H acc e H', W bss v fv H = .ok ([acc, e], H') → IsSlice acc) :
    ∀ (items : List (GV × GV)) (n : Nat) (bss : GV) (H : Heap),
    (∀ kv ∈ items, ∃ s, kv.1 = .str s ∧ isVar s = false) → heapGet H fa = some fo →
    loopR (n + K + items.length + 40) matchProg g
        [("m", m), ("bss", bss), ("pattern", pat), ("fact", .ref fa)] H "" "k" "v" items mcBody =
      (match mcSpec W fo.kvs items bss H with
       | .error e => .error e
       | .ok (fl, bss', H') => .ok (fl, [("m", m), ("bss", bss'), ("pattern", pat), ("fact", .ref fa)], H')) := by
  intro items
  induction items with
  | nil => intro n bss H _ _; simp [loopR, mcSpec]
  | cons it items ih =>
    intro n bss H hk hH
    obtain ⟨ik, v⟩ := it
    obtain ⟨s, rfl, hs⟩ := hk (ik, v) (by simp)
    have hk' : ∀ kv ∈ items, ∃ s, kv.1 = .str s ∧ isVar s = false := fun kv h => hk kv (by simp [h])
    have hvar : ∀ j, callFn (n + K + (items.length + 1) + j + 10) matchProg g ".IsVariable" m [.str s] H = .ok ([.bool (isVar s)], H) :=
      fun j => tr_IsVariable _ g m s H
    simp only [mcSpec]
    simp [-callFn, loopR, mcBody, matchProg_MmapcatMatch]
    rw [show n + K + (items.length + 1) + 34 = n + K + (items.length + 1) + 24 + 10 from rfl, hvar 24]
    simp [-callFn, hs, indexV, hH]
    cases hl : mlookup (.str s) fo.kvs with
    | none =>
      simp [-callFn]
      rw [show n + K + (items.length + 1) + 27 = (n + K + items.length + 16) + 12 by omega, tr_IsOptionalVariable]
      by_cases hopt : isOptVarG v = true
      · have hi := ih n bss H hk' hH
        simp only [mcBody, matchProg_MmapcatMatch] at hi
        simp [-callFn, hopt]
        rw [show n + K + (items.length + 1) + 39 = n + K + items.length + 40 by omega]
        exact hi
      · have hopt' : isOptVarG v = false := by simpa using hopt
        simp [-callFn, hopt']
    | some fv =>
      simp [-callFn]
      rw [hW _ (by omega) bss v fv H]
      cases hw : W bss v fv H with
      | error e => simp
      | ok r =>
        obtain ⟨vs, H'⟩ := r
        have hH' : heapGet H' fa = some fo := hfa bss v fv H vs H' hw hH
        match vs with
        | [] => simp
        | [_] => simp
        | _ :: _ :: _ :: _ => simp
        | [acc, e] =>
          cases e with
          | nil =>
            cases acc with
            | nil => simp [-callFn, goLen]
            | slice xs =>
              cases xs with
              | nil => simp [-callFn, goLen]
              | cons x xs =>
                have hi := ih n (.slice (x :: xs)) H' hk' hH'
                simp only [mcBody, matchProg_MmapcatMatch] at hi
                have hne : ¬ ((0 : Int) = (xs.length : Int) + 1) := by omega
                simp [-callFn, goLen, hne]
                rw [show n + K + (items.length + 1) + 39 = n + K + items.length + 40 by omega]
                exact hi
            | _ =>
              exfalso
              rcases hWs bss v fv H _ _ H' hw with h | ⟨xs, h⟩ <;> cases h
          | _ => simp [-callFn]

theorem firstVarKey_const (kvs : List (GV × GV)) (hk : ∀ kv ∈ kvs, ∃ s, kv.1 = .str s ∧ isVar s = false) :
    firstVarKey kvs = none := by
  induction kvs with
  | nil => rfl
  | cons kv rest ih =>
    obtain ⟨k, v⟩ := kv
    obtain ⟨s, rfl, hs⟩ := hk (k, v) (by simp)
    rw [firstVarKey_nonvar v rest hs]
    exact ih (fun kv h => hk kv (by simp [h]))

theorem mc_shape : matchProg_MmapcatMatch.body =
    [GS.ifs (some (GS.assign true [GL.var "err"] [GE.mcall (GE.var "m") ".checkForBadPropertyVariables" [GE.var "pattern"]]))
       (GE.bin "!=" (GE.var "err") (GE.lit GV.nil)) [GS.ret [GE.lit GV.nil, GE.var "err"]] [],
     GS.range "" "k" "v" (GE.var "pattern") mcBody,
     GS.ret [GE.var "bss", GE.lit GV.nil]] := by rfl

theorem mc_params : matchProg_MmapcatMatch.params = ["bss", "pattern", "fact"] ∧
    matchProg_MmapcatMatch.recv = "m" ∧ matchProg_MmapcatMatch.variadic = false := ⟨rfl, rfl, rfl⟩

/-- the translated `mapcatMatch` on a pattern map whose keys are all constants, relative to what
    `matchWithBindingss` does -/
theorem tr_mapcatMatch_const (n K : Nat) (g : Env) (H : Heap) (am pa fa : Nat) (mo po fo : MapObj) (bss : GV)
    (W : GV → GV → GV → Heap → R (List GV × Heap))
    (hm : heapGet H am = some mo) (hC : mlookup (.str "CheckForBadPropertyVariables") mo.kvs = some (.bool true))
    (hp : heapGet H pa = some po) (hf : heapGet H fa = some fo)
    (hk : ∀ kv ∈ po.kvs, ∃ s, kv.1 = .str s ∧ isVar s = false)
    (hW : ∀ k, K ≤ k → ∀ bss v fv H, callFn k matchProg g ".matchWithBindingss" (.ref am) [bss, v, fv] H = W bss v fv H)
    (hfa : ∀ bss v fv H r H', W bss v fv H = .ok (r, H') → heapGet H fa = some fo → heapGet H' fa = some fo)
    (hWs : ∀ bss v fv H acc e H', W bss v fv H = .ok ([acc, e], H') → IsSlice acc) :
    callFn (n + K + po.kvs.length + 60) matchProg g ".mapcatMatch" (.ref am) [bss, .ref pa, .ref fa] H =
      (match mcSpec W fo.kvs po.kvs bss H with
       | .error e => .error e
       | .ok (.next, bss', H') => .ok ([bss', .nil], H')
       | .ok (.ret vs, _, H') => .ok (vs, H')
       | .ok _ => .error (.stuck "break/continue left a function")) := by
  have hcfb := tr_checkForBadPropertyVariables (n + K + 14) g H am pa mo po hm hC hp
    (fun kv h => by obtain ⟨s, hs, _⟩ := hk kv h; exact ⟨s, hs⟩)
  have hnone := firstVarKey_const po.kvs hk
  have hres : cfbResult po.kvs = .nil := by
    unfold cfbResult; rw [hnone]; split <;> rfl
  rw [hres] at hcfb
  have hl := mc_loop g (.ref am) (.ref pa) fa fo W K hW hfa hWs po.kvs (n + 16) bss H hk hf
  rw [show n + K + po.kvs.length + 60 = (n + K + po.kvs.length + 59) + 1 from rfl]
  simp only [callFn, find_mapcat]
  simp only [mc_shape]
  simp [-callFn, mc_params.1, mc_params.2.1, mc_params.2.2]
  rw [show n + K + po.kvs.length + 54 = n + K + 14 + po.kvs.length + 40 by omega, hcfb]
  simp [-callFn, rangeItems, hp]
  rw [show n + K + po.kvs.length + 56 = n + 16 + K + po.kvs.length + 40 by omega, hl]
  cases mcSpec W fo.kvs po.kvs bss H with
  | error e => simp
  | ok r =>
    obtain ⟨fl, bss', H'⟩ := r
    cases fl <;> simp


/-- an array pattern: the variable check comes first (its error is the answer whatever the message
    is), and a message value that is not an array (a scalar or a map) does not match -/
theorem tr_match_array_head (n : Nat) (g : Env) (H : Heap) (m f : GV) (ps : List GV) (ab : Nat)
    (hf : ∀ xs, f ≠ .slice xs) :
    callFn (n + ps.length + 120) matchProg g ".match" m [.slice ps, f, .ref ab] H =
      (match getVarG ps "" [] with
       | .error e => .ok ([.nil, .err e], H)
       | .ok _ => .ok ([.nil, .nil], H)) := by
  have hf1 : ∀ y, callFn (n + ps.length + 116) matchProg g "fudge" .nil [y] H = .ok ([fudgeG y], H) := fun y => by
    rw [show n + ps.length + 116 = (n + ps.length + 104) + 12 from rfl]; exact tr_fudge _ g y H
  have hf2 : ∀ y, callFn (n + ps.length + 115) matchProg g "fudge" .nil [y] H = .ok ([fudgeG y], H) := fun y => by
    rw [show n + ps.length + 115 = (n + ps.length + 103) + 12 from rfl]; exact tr_fudge _ g y H
  have hfp : fudgeG (.slice ps) = .slice ps := rfl
  rw [show n + ps.length + 120 = (n + ps.length + 119) + 1 from rfl]
  simp only [callFn, find_match]
  simp [-callFn, -typeOf, matchProg_Mmatch]
  rw [hf1 (.slice ps)]
  simp [-callFn, -typeOf, hfp]
  rw [hf2 f]
  simp [-callFn]
  rw [show n + ps.length + 107 = (n + 57) + ps.length + 50 by omega, tr_getVariable]
  cases hgv : getVarG ps "" [] with
  | error e => simp
  | ok r =>
    obtain ⟨v, acc⟩ := r
    have hff : ∀ xs, fudgeG f ≠ .slice xs := by
      intro xs h; cases f <;> simp [fudgeG] at h; exact hf xs (by rw [h])
    generalize fudgeG f = ff at hff
    cases ff with
    | slice xs => exact absurd rfl (hff xs)
    | ref a => cases hh : heapGet H a <;> simp [hh]
    | _ => simp


end Sheens.TrMatch
