import Sheens.Compile

/-! Property C13 — theorems (in progress). -/
