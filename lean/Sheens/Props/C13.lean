import Sheens.Compile
import Sheens.Proofs.CompileLemmas

/-!
# Property C13 — a spec's behaviour is independent of its representation; compiling is idempotent

Over the model `Compile.compile` of `Spec.Compile` (repaired tree), for an abstract text codec.
The codec's laws are hypotheses (fields of `GoodCodec`), never axioms; that `encoding/json` and the
YAML loaders obey them on the documents the generators produce is what the correspondence run checks.
Two compiled specs that are equal as `CSpec` values behave identically on every message sequence
(the engine model is a function of the compiled spec), so the theorems are stated as equalities of
compile results.
-/

namespace Sheens.C13

open Compile

/-- what the theorems assume of the codec, for a class `P` of pattern values (the JSON values):
    marshalling succeeds and unmarshalling gives the value back; `P` values are not `null` -/
structure GoodCodec (c : Codec) (P : V → Prop) : Prop where
  roundtrip : ∀ v, P v → ∃ t, c.marshal v = some t ∧ c.unmarshal t = some v
  notNull   : ∀ v, P v → v ≠ .null

/-- every pattern of a document is in `P` -/
def PatternsIn (P : V → Prop) (s : RawSpec) : Prop :=
  ∀ nodes, s.nodes = some nodes → ∀ name n, (name, some n) ∈ nodes → ∀ br, n.branching = some br →
    ∀ b, some b ∈ br.branches → ∀ p, b.pattern = some p → P p

/-- every pattern of a compiled spec is in `P` -/
def CPatternsIn (P : V → Prop) (cs : CSpec) : Prop :=
  ∀ name nd, (name, nd) ∈ cs.nodes → ∀ ty bs, nd.branches = some (ty, bs) → ∀ b ∈ bs, ∀ p, b.pattern = some p → P p

/-- Canonicalising a `P` value changes nothing. -/
theorem canonicalize_id (c : Codec) (P : V → Prop) (hc : GoodCodec c P) (v : V) (hv : P v) :
    canonicalize c (some v) = .ok (some v) := by
  obtain ⟨t, hm, hu⟩ := hc.roundtrip v hv
  have hne := nullToNone_of_ne v (hc.notNull v hv)
  simp only [canonicalize, hm, hu]
  exact congrArg Except.ok hne

/-- Compiling again changes nothing: compiling the dump of a compiled spec gives the same compiled
    spec (this is also "serialise the compiled spec and reload it"). -/
theorem compile_idempotent (c : Codec) (P : V → Prop) (hc : GoodCodec c P) (known : String → Bool)
    (srcOk : Source → Bool) (s : RawSpec) (cs : CSpec)
    (h : compile c known srcOk s = .ok cs) (hp : CPatternsIn P cs) :
    compile c known srcOk (decompile cs) = .ok cs := by
  apply compile_decompile (compile_ok_inv h)
  intro name nd hnd ty bs hbs b hb
  cases hpat : b.pattern with
  | none => rfl
  | some p => exact canonicalize_id c P hc p (hp name nd hnd ty bs hbs b hb p hpat)

/-- the same document with every pattern written as JSON text under `patternSyntax: json` -/
def asText (c : Codec) (s : RawSpec) : RawSpec :=
  { s with
    patternSyntax := "json"
    nodes := s.nodes.map (fun nodes => nodes.map (fun (name, n) =>
      (name, n.map (fun n => { n with branching := n.branching.map (fun br =>
        { br with branches := br.branches.map (fun b => b.map (fun b =>
          { b with pattern := b.pattern.map (fun p => match c.marshal p with | some t => V.str t | none => p) })) }) })))) }

/-- Patterns written inline or as JSON text compile to the same machine — including patterns that
    are bare strings and bare variables. -/
theorem compile_repr_independent (c : Codec) (P : V → Prop) (hc : GoodCodec c P) (known : String → Bool)
    (srcOk : Source → Bool) (s : RawSpec) (hs : s.patternSyntax = "" ∨ s.patternSyntax = "none")
    (hp : PatternsIn P s) :
    compile c known srcOk (asText c s) = compile c known srcOk s := by
  exact compile_text hc.roundtrip hc.notNull known srcOk hs hp

/-- Unknown interpreters are rejected at compile time. -/
theorem rejects_unknown_interpreter (c : Codec) (known : String → Bool) (srcOk : Source → Bool) (s : RawSpec)
    (nodes : List (String × Option RawNode)) (name : String) (n : RawNode) (src : Source)
    (hn : s.nodes = some nodes) (hm : (name, some n) ∈ nodes) (ha : n.action = some src)
    (hk : known src.interpreter = false) :
    ∃ e, compile c known srcOk s = .error e := by
  apply compile_error_of_node hn hm
  intro syn n' hpp
  obtain ⟨n'', heq, hact, _⟩ := ppNode_ok_some hpp
  simp only [Prod.mk.injEq, Option.some.injEq, true_and] at heq
  subst heq
  exact cNode_error_unknown_interpreter (hact.trans ha) hk

/-- Unknown branching types are rejected at compile time. -/
theorem rejects_unknown_branching_type (c : Codec) (known : String → Bool) (srcOk : Source → Bool) (s : RawSpec)
    (nodes : List (String × Option RawNode)) (name : String) (n : RawNode) (br : RawBranching)
    (hn : s.nodes = some nodes) (hm : (name, some n) ∈ nodes) (hb : n.branching = some br)
    (ht : br.type ≠ "" ∧ br.type ≠ "message" ∧ br.type ≠ "bindings") :
    ∃ e, compile c known srcOk s = .error e := by
  apply compile_error_of_node hn hm
  intro syn n' hpp
  obtain ⟨n'', heq, _, hbr⟩ := ppNode_ok_some hpp
  simp only [Prod.mk.injEq, Option.some.injEq, true_and] at heq
  subst heq
  obtain ⟨bs, _, hb'⟩ := hbr br hb
  exact cNode_error_unknown_type hb' ht

/-- An unknown pattern syntax is rejected at compile time (as soon as there is a branch to parse). -/
theorem rejects_unknown_syntax (c : Codec) (known : String → Bool) (srcOk : Source → Bool) (s : RawSpec)
    (nodes : List (String × Option RawNode)) (name : String) (n : RawNode) (br : RawBranching) (b : RawBranch)
    (hn : s.nodes = some nodes) (hm : (name, some n) ∈ nodes) (hb : n.branching = some br)
    (hbr : some b ∈ br.branches)
    (hs : s.patternSyntax ≠ "" ∧ s.patternSyntax ≠ "none" ∧ s.patternSyntax ≠ "json") :
    ∃ e, compile c known srcOk s = .error e := by
  obtain ⟨e, he⟩ := ppNode_error_bad_syntax (c := c) (name := name) hb hbr hs
  obtain ⟨e', he'⟩ := parsePatterns_error_of_node hn hm he
  exact ⟨e', by rw [compile_eq, he']⟩

/-- Compile is total on documents: it returns a compiled spec or an error for null nodes, null
    branches, missing node lists — by construction (`compile` is a total function returning `Except`);
    a null branch is an error, a null node becomes an empty node. -/
theorem null_branch_is_error (c : Codec) (known : String → Bool) (srcOk : Source → Bool) (s : RawSpec)
    (nodes : List (String × Option RawNode)) (name : String) (n : RawNode) (br : RawBranching)
    (hn : s.nodes = some nodes) (hm : (name, some n) ∈ nodes) (hb : n.branching = some br)
    (hnull : none ∈ br.branches) :
    ∃ e, compile c known srcOk s = .error e := by
  apply compile_error_of_node hn hm
  intro syn n' hpp
  obtain ⟨n'', heq, _, hbr⟩ := ppNode_ok_some hpp
  simp only [Prod.mk.injEq, Option.some.injEq, true_and] at heq
  subst heq
  obtain ⟨bs, hbs, hb'⟩ := hbr br hb
  obtain ⟨y, hy, hyn⟩ := mapM'_ok_mem hbs hnull
  have : y = none := by
    have h0 : ppBranch c s.patternSyntax none = .ok none := rfl
    rw [h0] at hyn
    simp only [Except.ok.injEq] at hyn
    exact hyn.symm
  subst this
  exact cNode_error_null_branch hb' hy

end Sheens.C13
