import Sheens.GoSem
import Sheens.Gen.GoAst
import Sheens.Match
open Go Gen.GoAst

/-!
# Tie C, proved part: the translated leaf functions of `match/match.go`

`Gen.GoAst.matchProg` is what `go/go2lean` made of `match/match.go` on this run; `callFn` is
the interpreter of `GoSem.lean`.  Each theorem says, for **all** arguments, heaps and enough
fuel, that running the translated declaration returns what the hand-written model's function
returns — so the theorems about the model (C01–C03, C07) speak about these functions of the
source as it is now, not about a transcription of them.  A change to one of these functions
changes the regenerated syntax, and the proof no longer checks.
-/

namespace Sheens.TrMatch

attribute [local simp] callFn bindParams execB execS execOpt execBlock evalE evalArgs evalOpt eval1 assignAll assignTo
  envGet envSet envLeave builtin typeOf parseTy zeroOf truthy binop goEq keyEq pickCase anyCase Except.map toF64

theorem find_IsVariable : findFn matchProg ".IsVariable" = some matchProg_MIsVariable := by rfl
theorem find_IsOptionalVariable : findFn matchProg ".IsOptionalVariable" = some matchProg_MIsOptionalVariable := by rfl
theorem find_IsAnonymousVariable : findFn matchProg ".IsAnonymousVariable" = some matchProg_MIsAnonymousVariable := by rfl
theorem find_IsConstant : findFn matchProg ".IsConstant" = some matchProg_MIsConstant := by rfl

@[simp] theorem prefix_q (s : String) : (['?'].isPrefixOf s.toList) = isVar s := by
  unfold isVar
  cases h : s.toList with
  | nil => simp
  | cons c cs =>
    by_cases hc : c = '?'
    · subst hc; simp [List.isPrefixOf]
    · have : ('?' == c) = false := by simp; exact fun h => hc h.symm
      simp [List.isPrefixOf, this]
      split
      · next h2 => cases h2; exact absurd rfl hc
      · rfl

/-- the translated `Matcher.IsVariable` computes the model's `isVar` -/
theorem tr_IsVariable (n : Nat) (g : Env) (m : GV) (s : String) (h : Heap) :
    callFn (n + 10) matchProg g ".IsVariable" m [.str s] h = .ok ([.bool (isVar s)], h) := by
  simp [find_IsVariable, matchProg_MIsVariable]

/-- `Matcher.IsOptionalVariable` on any interface value -/
def isOptVarG : GV → Bool
  | .str s => ['?', '?'].isPrefixOf s.toList
  | _ => false

theorem tr_IsOptionalVariable (n : Nat) (g : Env) (m x : GV) (h : Heap) :
    callFn (n + 12) matchProg g ".IsOptionalVariable" m [x] h = .ok ([.bool (isOptVarG x)], h) := by
  cases x with
  | ref a => cases hh : heapGet h a <;> simp [find_IsOptionalVariable, matchProg_MIsOptionalVariable, isOptVarG, hh]
  | _ => simp [find_IsOptionalVariable, matchProg_MIsOptionalVariable, isOptVarG]

theorem isOptVarG_str (s : String) : isOptVarG (.str s) = isOptVar (.str s) := by
  simp only [isOptVarG, isOptVar]
  cases h : s.toList with
  | nil => simp
  | cons c cs =>
    cases cs with
    | nil => by_cases hc : c = '?' <;> simp [List.isPrefixOf, hc]
    | cons d ds =>
      by_cases hc : c = '?'
      · by_cases hd : d = '?'
        · subst hc; subst hd; simp [List.isPrefixOf]
        · subst hc
          have : ('?' == d) = false := by simp; exact fun h => hd h.symm
          simp [List.isPrefixOf, this]
          split
          · next h2 => cases h2; exact absurd rfl hd
          · rfl
      · have : ('?' == c) = false := by simp; exact fun h => hc h.symm
        simp [List.isPrefixOf, this]
        split
        · next h2 => cases h2; exact absurd rfl hc
        · rfl

theorem tr_IsAnonymousVariable (n : Nat) (g : Env) (m : GV) (s : String) (h : Heap) :
    callFn (n + 10) matchProg g ".IsAnonymousVariable" m [.str s] h = .ok ([.bool (isAnon s)], h) := by
  simp [find_IsAnonymousVariable, matchProg_MIsAnonymousVariable, isAnon]

theorem tr_IsConstant (n : Nat) (g : Env) (m : GV) (s : String) (h : Heap) :
    callFn (n + 20) matchProg g ".IsConstant" m [.str s] h = .ok ([.bool (!isVar s)], h) := by
  simp [find_IsConstant, matchProg_MIsConstant, find_IsVariable, matchProg_MIsVariable]


theorem find_fudge : findFn matchProg "fudge" = some matchProg_fudge := by rfl

/-- `fudge` on interface values: every numeric Go type becomes `float64` -/
def fudgeG : GV → GV
  | .numT _ i => .f64 i
  | .int i => .f64 i
  | v => v

theorem tr_fudge (n : Nat) (g : Env) (x : GV) (h : Heap) :
    callFn (n + 12) matchProg g "fudge" .nil [x] h = .ok ([fudgeG x], h) := by
  cases x with
  | ref a => cases hh : heapGet h a <;> simp [find_fudge, matchProg_fudge, fudgeG, hh]
  | numT t i => cases t <;> simp [find_fudge, matchProg_fudge, fudgeG]
  | _ => simp [find_fudge, matchProg_fudge, fudgeG]


/-! ## loops: `Bindings.Copy`, `Matcher.Match` (copies first), `Matcher.getVariable` -/

theorem find_Copy : findFn matchProg ".Copy" = some matchProg_MCopy := by rfl

theorem heapGet_set_same (H : Heap) (L : Nat) (o o' : MapObj) (h : heapGet H L = some o) :
    heapGet (heapSet H L o') L = some o' := by
  unfold heapGet heapSet at *
  have hl : L < H.length := by
    rcases Nat.lt_or_ge L H.length with h1 | h1
    · exact h1
    · simp [List.getElem?_eq_none h1] at h
  simp [List.getElem?_set, hl]

theorem heapSet_self (H : Heap) (L : Nat) (o : MapObj) (h : heapGet H L = some o) : heapSet H L o = H := by
  unfold heapGet heapSet at *
  have hl : L < H.length := by
    rcases Nat.lt_or_ge L H.length with h1 | h1
    · exact h1
    · simp [List.getElem?_eq_none h1] at h
  have : H[L] = o := by
    have := List.getElem?_eq_getElem hl
    rw [this] at h; exact Option.some.inj h
  rw [← this]; exact List.set_getElem_self hl

theorem heapSet_set (H : Heap) (L : Nat) (o o' : MapObj) : heapSet (heapSet H L o) L o' = heapSet H L o' := by
  unfold heapSet; exact List.set_set ..

/-- the body of `Bindings.Copy`'s loop: `acc[k] = v` for every entry, in order -/
theorem copy_loop (g : Env) (rb : GV) (L : Nat) (ty : String) (items : List (GV × GV)) :
    ∀ (n : Nat) (done : List (GV × GV)) (H : Heap), heapGet H L = some { ty := ty, kvs := done } →
    loopR (n + items.length + 8) matchProg g [("acc", .ref L), ("bs", rb)] H "" "k" "v" items
        [GS.assign false [GL.index (GE.var "acc") (GE.var "k")] [GE.var "v"]]
      = .ok (.next, [("acc", .ref L), ("bs", rb)],
             heapSet H L { ty := ty, kvs := items.foldl (fun acc kv => minsert kv.1 kv.2 acc) done }) := by
  induction items with
  | nil =>
    intro n done H hH
    simp [loopR]
    exact (heapSet_self H L _ hH).symm
  | cons it items ih =>
    intro n done H hH
    obtain ⟨ik, iv⟩ := it
    have := ih n (minsert ik iv done) (heapSet H L { ty := ty, kvs := minsert ik iv done }) (heapGet_set_same H L _ _ hH)
    simp [loopR, hH]
    rw [show n + (items.length + 1) + 7 = n + items.length + 8 by omega, this, heapSet_set]

/-- the translated `Bindings.Copy`: a new map object with the entries of the receiver (stored one by
    one, in the receiver's order), the receiver and every other object untouched -/
theorem tr_Copy (n : Nat) (g : Env) (H : Heap) (a : Nat) (o : MapObj) (ho : heapGet H a = some o) :
    callFn (n + o.kvs.length + 20) matchProg g ".Copy" (.ref a) [] H =
      .ok ([.ref H.length], H ++ [{ ty := "Bindings", kvs := o.kvs.foldl (fun acc kv => minsert kv.1 kv.2 acc) [] }]) := by
  have hget : heapGet (H ++ [{ ty := "Bindings", kvs := [] }]) H.length = some { ty := "Bindings", kvs := [] } := by
    simp [heapGet]
  have hloop := copy_loop g (.ref a) H.length "Bindings" o.kvs (n + 8) [] (H ++ [{ ty := "Bindings", kvs := [] }]) hget
  have hitems : rangeItems (H ++ [{ ty := "Bindings", kvs := [] }]) (.ref a) = some o.kvs := by
    have : heapGet (H ++ [{ ty := "Bindings", kvs := [] }]) a = some o := by
      unfold heapGet at *
      rw [List.getElem?_append_left]; exact ho
      rcases Nat.lt_or_ge a H.length with h1 | h1
      · exact h1
      · simp [List.getElem?_eq_none h1] at ho
    simp [rangeItems, this]
  rw [show n + o.kvs.length + 20 = (n + o.kvs.length + 19) + 1 from rfl]
  simp only [callFn, find_Copy]
  simp [-callFn, matchProg_MCopy, hitems]
  rw [show n + o.kvs.length + 16 = n + 8 + o.kvs.length + 8 by omega, hloop]
  simp [heapSet]

/-- `Copy` of the nil map (no bindings given): a new, empty map — never nil -/
theorem tr_Copy_nil (n : Nat) (g : Env) (H : Heap) :
    callFn (n + 20) matchProg g ".Copy" .nil [] H = .ok ([.ref H.length], H ++ [{ ty := "Bindings", kvs := [] }]) := by
  simp [find_Copy, matchProg_MCopy, rangeItems, loopR]

theorem find_Match : findFn matchProg ".Match" = some matchProg_MMatch := by rfl

/-- the translated `Matcher.Match` is `match` on a copy of the given bindings: the caller's map is
    not among the arguments of anything that follows -/
theorem tr_Match_copies_first (n : Nat) (g : Env) (H : Heap) (m p f : GV) (a : Nat) (o : MapObj)
    (ho : heapGet H a = some o) :
    callFn (n + o.kvs.length + 30) matchProg g ".Match" m [p, f, .ref a] H =
      callFn (n + o.kvs.length + 26) matchProg g ".match" m [p, f, .ref H.length]
        (H ++ [{ ty := "Bindings", kvs := o.kvs.foldl (fun acc kv => minsert kv.1 kv.2 acc) [] }]) := by
  have hc := tr_Copy (n + 1) g H a o ho
  conv =>
    lhs
    rw [show n + o.kvs.length + 30 = (n + o.kvs.length + 29) + 1 from rfl]
    simp only [callFn, find_Match]
  simp [-callFn, matchProg_MMatch]
  rw [show n + o.kvs.length + 21 = n + 1 + o.kvs.length + 20 by omega, hc]
  simp only []
  cases callFn (n + o.kvs.length + 26) matchProg g ".match" m [p, f, .ref H.length]
      (H ++ [{ ty := "Bindings", kvs := o.kvs.foldl (fun acc kv => minsert kv.1 kv.2 acc) [] }]) with
  | error e => rfl
  | ok r => obtain ⟨vs, h1⟩ := r; rfl


theorem find_getVariable : findFn matchProg ".getVariable" = some matchProg_MgetVariable := by rfl

/-- `getVariable` over the interpreter's values: the first variable (`""` = none yet) and the
    non-variables in order; a second variable is an error -/
def getVarG : List GV → String → List GV → Except String (String × List GV)
  | [], v, acc => .ok (v, acc)
  | .str s :: xs, v, acc =>
    if isVar s then
      if v = "" then getVarG xs s acc
      else if v = s then .error "repeated variables not supported"
      else .error "multiple variables not supported here"
    else getVarG xs v (acc ++ [.str s])
  | x :: xs, v, acc => getVarG xs v (acc ++ [x])

/-- the loop body of `getVariable`, taken from the regenerated declaration -/
def gvBody : List GS :=
  match matchProg_MgetVariable.body with
  | [_, _, GS.range _ _ _ _ body, _] => body
  | _ => []

theorem gv_shape : matchProg_MgetVariable.body =
    [GS.varDecl ["v"] (GV.str ""),
     GS.assign true [GL.var "acc"] [GE.call "makeslice" [GE.lit (GV.str "[]interface{}"), GE.lit (GV.int 0)]],
     GS.range "" "_" "x" (GE.var "xs") gvBody,
     GS.ret [GE.var "v", GE.var "acc", GE.lit GV.nil]] := by rfl

theorem typeOf_str_iff (H : Heap) (x : GV) : typeOf H x = GT.str ↔ ∃ s, x = .str s := by
  cases x with
  | ref a => cases hh : heapGet H a <;> simp [typeOf, hh]
  | _ => simp [typeOf]

theorem getVarG_nonstr (x : GV) (xs : List GV) (v : String) (acc : List GV) (hx : ¬ ∃ s, x = .str s) :
    getVarG (x :: xs) v acc = getVarG xs v (acc ++ [x]) := by
  cases x with
  | str s => exact absurd ⟨s, rfl⟩ hx
  | _ => simp [getVarG]

theorem gv_loop (g : Env) (m xs0 : GV) (H : Heap) : ∀ (items : List (GV × GV)) (n : Nat) (v : String) (acc : List GV),
    (match getVarG (items.map (·.2)) v acc with
     | .ok (v', acc') =>
        loopR (n + items.length + 40) matchProg g [("acc", .slice acc), ("v", .str v), ("m", m), ("xs", xs0)] H "" "_" "x" items gvBody
          = .ok (.next, [("acc", .slice acc'), ("v", .str v'), ("m", m), ("xs", xs0)], H)
     | .error e =>
        ∃ env', loopR (n + items.length + 40) matchProg g [("acc", .slice acc), ("v", .str v), ("m", m), ("xs", xs0)] H "" "_" "x" items gvBody
          = .ok (.ret [.str "", .nil, .err e], env', H)) := by
  intro items
  induction items with
  | nil => intro n v acc; simp [getVarG, loopR]
  | cons it items ih =>
    intro n v acc
    obtain ⟨ik, iv⟩ := it
    by_cases hstr : ∃ s, iv = .str s
    · obtain ⟨s, rfl⟩ := hstr
      have hcall : ∀ k, callFn (n + items.length + 10 + k) matchProg g ".IsVariable" m [.str s] H = .ok ([.bool (isVar s)], H) := by
        intro k
        rw [show n + items.length + 10 + k = (n + items.length + k) + 10 by omega]
        exact tr_IsVariable _ g m s H
      by_cases hv : isVar s = true
      · by_cases hve : v = ""
        · -- the first variable: remembered, the element is skipped
          subst hve
          have hi := ih n s acc
          simp only [gvBody, matchProg_MgetVariable] at hi
          simp only [List.map, getVarG, hv, if_true]
          revert hi
          cases getVarG (items.map (·.2)) s acc with
          | ok r =>
            obtain ⟨v', acc'⟩ := r
            intro hi
            dsimp only at hi
            simp [-callFn, loopR, gvBody, matchProg_MgetVariable, sliceElems]
            rw [show n + (items.length + 1) + 30 = n + items.length + 10 + 21 by omega, hcall 21]
            simp [loopR, sliceElems, hv]
            rw [show n + (items.length + 1) + 39 = n + items.length + 40 by omega]
            exact hi
          | error e =>
            intro hi
            obtain ⟨env', hi⟩ := hi
            refine ⟨env', ?_⟩
            simp [-callFn, loopR, gvBody, matchProg_MgetVariable, sliceElems]
            rw [show n + (items.length + 1) + 30 = n + items.length + 10 + 21 by omega, hcall 21]
            simp [loopR, sliceElems, hv]
            rw [show n + (items.length + 1) + 39 = n + items.length + 40 by omega]
            exact hi
        · by_cases hvs : v = s
          · subst hvs
            simp only [List.map, getVarG, hv, hve, if_true, if_false]
            refine ⟨[("acc", .slice acc), ("v", .str v), ("m", m), ("xs", xs0)], ?_⟩
            simp [-callFn, loopR, gvBody, matchProg_MgetVariable, sliceElems]
            rw [show n + (items.length + 1) + 30 = n + items.length + 10 + 21 by omega, hcall 21]
            simp [loopR, sliceElems, hv, hve]
          · simp only [List.map, getVarG, hv, hve, hvs, if_true, if_false]
            refine ⟨[("acc", .slice acc), ("v", .str v), ("m", m), ("xs", xs0)], ?_⟩
            simp [-callFn, loopR, gvBody, matchProg_MgetVariable, sliceElems]
            rw [show n + (items.length + 1) + 30 = n + items.length + 10 + 21 by omega, hcall 21]
            simp [loopR, sliceElems, hv, hve, hvs]
      · have hv' : isVar s = false := by simpa using hv
        have hi := ih n v (acc ++ [.str s])
        simp only [gvBody, matchProg_MgetVariable] at hi
        simp only [List.map, getVarG, hv']
        revert hi
        cases getVarG (items.map (·.2)) v (acc ++ [.str s]) with
        | ok r =>
          obtain ⟨v', acc'⟩ := r
          intro hi
          dsimp only at hi
          simp [-callFn, loopR, gvBody, matchProg_MgetVariable, sliceElems]
          rw [show n + (items.length + 1) + 30 = n + items.length + 10 + 21 by omega, hcall 21]
          simp [loopR, sliceElems, hv']
          rw [show n + (items.length + 1) + 39 = n + items.length + 40 by omega]
          exact hi
        | error e =>
          intro hi
          obtain ⟨env', hi⟩ := hi
          refine ⟨env', ?_⟩
          simp [-callFn, loopR, gvBody, matchProg_MgetVariable, sliceElems]
          rw [show n + (items.length + 1) + 30 = n + items.length + 10 + 21 by omega, hcall 21]
          simp [loopR, sliceElems, hv']
          rw [show n + (items.length + 1) + 39 = n + items.length + 40 by omega]
          exact hi
    · have hty : ¬ (GT.str = typeOf H iv) := fun h => hstr ((typeOf_str_iff H iv).mp h.symm)
      have hi := ih n v (acc ++ [iv])
      simp only [gvBody, matchProg_MgetVariable] at hi
      simp only [List.map, getVarG_nonstr iv _ v acc hstr]
      revert hi
      cases getVarG (items.map (·.2)) v (acc ++ [iv]) with
      | ok r =>
        obtain ⟨v', acc'⟩ := r
        intro hi
        dsimp only at hi
        simp [-typeOf, loopR, gvBody, matchProg_MgetVariable, sliceElems, hty]
        rw [show n + (items.length + 1) + 39 = n + items.length + 40 by omega]
        exact hi
      | error e =>
        intro hi
        obtain ⟨env', hi⟩ := hi
        refine ⟨env', ?_⟩
        simp [-typeOf, loopR, gvBody, matchProg_MgetVariable, sliceElems, hty]
        rw [show n + (items.length + 1) + 39 = n + items.length + 40 by omega]
        exact hi

theorem gv_params : matchProg_MgetVariable.params = ["xs"] ∧ matchProg_MgetVariable.recv = "m" ∧
    matchProg_MgetVariable.variadic = false := ⟨rfl, rfl, rfl⟩

theorem rangeItems_slice_snd (H : Heap) (xs : List GV) :
    ∃ items, rangeItems H (.slice xs) = some items ∧ items.map (·.2) = xs ∧ items.length = xs.length := by
  refine ⟨_, rfl, ?_, ?_⟩
  · simp [List.map_map, Function.comp_def]
    have := List.map_snd_zip (l₁ := List.range xs.length) (l₂ := xs) (by simp)
    simpa using this
  · simp

/-- the translated `Matcher.getVariable` computes `getVarG` — the first variable of a pattern array
    and its other elements in order, or one of the two errors — and leaves the heap as it is -/
theorem tr_getVariable (n : Nat) (g : Env) (m : GV) (xs : List GV) (H : Heap) :
    callFn (n + xs.length + 50) matchProg g ".getVariable" m [.slice xs] H =
      (match getVarG xs "" [] with
       | .ok (v, acc) => .ok ([.str v, .slice acc, .nil], H)
       | .error e => .ok ([.str "", .nil, .err e], H)) := by
  obtain ⟨items, hitems, hsnd, hlen⟩ := rangeItems_slice_snd H xs
  have hl := gv_loop g m (.slice xs) H items (n + 5) "" []
  rw [hsnd] at hl
  rw [show n + xs.length + 50 = (n + xs.length + 49) + 1 from rfl]
  simp only [callFn, find_getVariable]
  simp only [gv_shape]
  revert hl
  cases getVarG xs "" [] with
  | ok r =>
    obtain ⟨v, acc⟩ := r
    intro hl
    dsimp only at hl
    simp [-callFn, hitems, gv_params.1, gv_params.2.1, gv_params.2.2]
    rw [show n + xs.length + 45 = n + 5 + items.length + 40 by omega, hl]
    simp
  | error e =>
    intro hl
    obtain ⟨env', hl⟩ := hl
    simp [-callFn, hitems, gv_params.1, gv_params.2.1, gv_params.2.2]
    rw [show n + xs.length + 45 = n + 5 + items.length + 40 by omega, hl]


/-! ## `checkForBadPropertyVariables` -/

theorem find_cfb : findFn matchProg ".checkForBadPropertyVariables" = some matchProg_McheckForBadPropertyVariables := by rfl

def cfbBody : List GS :=
  match matchProg_McheckForBadPropertyVariables.body with
  | [_, _, GS.range _ _ _ _ body, _] => body
  | _ => []

theorem cfb_shape : matchProg_McheckForBadPropertyVariables.body =
    [GS.ifs none (GE.un "!" (GE.field (GE.var "m") "CheckForBadPropertyVariables")) [GS.ret [GE.lit GV.nil]] [],
     GS.ifs none (GE.bin "<=" (GE.call "len" [GE.var "pattern"]) (GE.lit (GV.int 1))) [GS.ret [GE.lit GV.nil]] [],
     GS.range "" "k" "" (GE.var "pattern") cfbBody,
     GS.ret [GE.lit GV.nil]] := by rfl

/-- the first key that is a variable -/
def firstVarKey : List (GV × GV) → Option String
  | [] => none
  | (.str s, _) :: rest => if isVar s then some s else firstVarKey rest
  | _ :: rest => firstVarKey rest

def badKeyPre : String := "can't have a variable as a key (\""
def badKeyPost : String := "\") with other keys"

theorem firstVarKey_var {s : String} (iv : GV) (rest : List (GV × GV)) (h : isVar s = true) :
    firstVarKey ((.str s, iv) :: rest) = some s := by simp [firstVarKey, h]
theorem firstVarKey_nonvar {s : String} (iv : GV) (rest : List (GV × GV)) (h : isVar s = false) :
    firstVarKey ((.str s, iv) :: rest) = firstVarKey rest := by simp [firstVarKey, h]

theorem cfb_loop (g : Env) (m pat : GV) (H : Heap) : ∀ (items : List (GV × GV)) (n : Nat),
    (∀ kv ∈ items, ∃ s, kv.1 = .str s) →
    (firstVarKey items = none →
      loopR (n + items.length + 30) matchProg g [("m", m), ("pattern", pat)] H "" "k" "" items cfbBody
          = .ok (.next, [("m", m), ("pattern", pat)], H)) ∧
    (∀ k, firstVarKey items = some k →
      loopR (n + items.length + 30) matchProg g [("m", m), ("pattern", pat)] H "" "k" "" items cfbBody
          = .ok (.ret [.err (badKeyPre ++ k ++ badKeyPost)], [("m", m), ("pattern", pat)], H)) := by
  intro items
  induction items with
  | nil => intro n _; simp [firstVarKey, loopR]
  | cons it items ih =>
    intro n hk
    obtain ⟨ik, iv⟩ := it
    obtain ⟨s, rfl⟩ := hk (ik, iv) (by simp)
    have hk' : ∀ kv ∈ items, ∃ s, kv.1 = .str s := fun kv h => hk kv (by simp [h])
    have hcall : callFn (n + (items.length + 1) + 24) matchProg g ".IsVariable" m [.str s] H = .ok ([.bool (isVar s)], H) := by
      rw [show n + (items.length + 1) + 24 = (n + items.length + 15) + 10 by omega]
      exact tr_IsVariable _ g m s H
    obtain ⟨ih1, ih2⟩ := ih n hk'
    simp only [cfbBody, matchProg_McheckForBadPropertyVariables] at ih1 ih2
    by_cases hv : isVar s = true
    · have hf := firstVarKey_var iv items hv
      refine ⟨fun h => (by rw [hf] at h; cases h), fun k h => ?_⟩
      rw [hf] at h; cases h
      simp [-callFn, loopR, cfbBody, matchProg_McheckForBadPropertyVariables]
      rw [hcall]
      simp [hv, badKeyPre, badKeyPost]
    · have hv' : isVar s = false := by simpa using hv
      have hf := firstVarKey_nonvar iv items hv'
      refine ⟨fun h => ?_, fun k h => ?_⟩
      · rw [hf] at h
        simp [-callFn, loopR, cfbBody, matchProg_McheckForBadPropertyVariables]
        rw [hcall]
        simp [hv']
        rw [show n + (items.length + 1) + 29 = n + items.length + 30 by omega]
        exact ih1 h
      · rw [hf] at h
        simp [-callFn, loopR, cfbBody, matchProg_McheckForBadPropertyVariables]
        rw [hcall]
        simp [hv']
        rw [show n + (items.length + 1) + 29 = n + items.length + 30 by omega]
        exact ih2 k h

/-- what `checkForBadPropertyVariables` returns for a pattern map with entries `kvs` -/
def cfbResult (kvs : List (GV × GV)) : GV :=
  if kvs.length ≤ 1 then .nil
  else match firstVarKey kvs with
    | none => .nil
    | some k => .err (badKeyPre ++ k ++ badKeyPost)

theorem cfb_params : matchProg_McheckForBadPropertyVariables.params = ["pattern"] ∧
    matchProg_McheckForBadPropertyVariables.recv = "m" ∧ matchProg_McheckForBadPropertyVariables.variadic = false :=
  ⟨rfl, rfl, rfl⟩

/-- the translated `checkForBadPropertyVariables`: an error exactly when the pattern map has more
    than one key and one of them is a variable (the first such key, in iteration order, is named) -/
theorem tr_checkForBadPropertyVariables (n : Nat) (g : Env) (H : Heap) (am ap : Nat) (mo po : MapObj)
    (hm : heapGet H am = some mo) (hC : mlookup (.str "CheckForBadPropertyVariables") mo.kvs = some (.bool true))
    (hp : heapGet H ap = some po) (hk : ∀ kv ∈ po.kvs, ∃ s, kv.1 = .str s) :
    callFn (n + po.kvs.length + 40) matchProg g ".checkForBadPropertyVariables" (.ref am) [.ref ap] H =
      .ok ([cfbResult po.kvs], H) := by
  obtain ⟨l1, l2⟩ := cfb_loop g (.ref am) (.ref ap) H po.kvs (n + 5) hk
  rw [show n + po.kvs.length + 40 = (n + po.kvs.length + 39) + 1 from rfl]
  simp only [callFn, find_cfb]
  simp only [cfb_shape]
  unfold cfbResult
  by_cases hlen : po.kvs.length ≤ 1
  · have : ((po.kvs.length : Int) ≤ 1) := by omega
    simp [-callFn, cfb_params.1, cfb_params.2.1, cfb_params.2.2, hm, hC, hp, goLen, hlen, this]
  · have hnot : ¬ ((po.kvs.length : Int) ≤ 1) := by omega
    cases hf : firstVarKey po.kvs with
    | none =>
      have := l1 hf
      simp [-callFn, cfb_params.1, cfb_params.2.1, cfb_params.2.2, hm, hC, hp, goLen, hlen, hnot, rangeItems]
      rw [show n + po.kvs.length + 35 = n + 5 + po.kvs.length + 30 by omega, this]
    | some k =>
      have := l2 k hf
      simp [-callFn, cfb_params.1, cfb_params.2.1, cfb_params.2.2, hm, hC, hp, goLen, hlen, hnot, rangeItems]
      rw [show n + po.kvs.length + 35 = n + 5 + po.kvs.length + 30 by omega, this]

/-- … which is the model's `checkBadPropVars` on the keys -/
theorem firstVarKey_isSome (kvs : List (String × V)) (conv : V → GV) :
    (firstVarKey (kvs.map (fun kv => (GV.str kv.1, conv kv.2)))).isSome = kvs.any (fun kv => isVar kv.1) := by
  induction kvs with
  | nil => simp [firstVarKey]
  | cons kv rest ih =>
    obtain ⟨k, v⟩ := kv
    by_cases hv : isVar k = true
    · simp [firstVarKey, hv]
    · have hv' : isVar k = false := by simpa using hv
      simp [firstVarKey, hv', ih]

theorem cfbResult_err_iff (kvs : List (String × V)) (conv : V → GV) :
    (cfbResult (kvs.map (fun kv => (GV.str kv.1, conv kv.2))) ≠ .nil) ↔ checkBadPropVars kvs = true := by
  have h := firstVarKey_isSome kvs conv
  unfold cfbResult checkBadPropVars
  by_cases hl : kvs.length ≤ 1
  · have : ¬ (kvs.length > 1) := by omega
    simp [hl, this]
  · have : kvs.length > 1 := by omega
    simp only [List.length_map, hl, if_false]
    cases hf : firstVarKey (kvs.map (fun kv => (GV.str kv.1, conv kv.2))) with
    | none => rw [hf] at h; simp at h; simp [this]; exact h
    | some k => rw [hf] at h; simp at h; simp [this]; exact h


/-! ## `combine` -/

theorem find_combine : findFn matchProg "combine" = some matchProg_combine := by rfl

/-- a value that is a (possibly nil) slice -/
def IsSlice (x : GV) : Prop := x = .nil ∨ ∃ xs, x = .slice xs

def elemsOf : GV → List GV
  | .slice xs => xs
  | _ => []

theorem sliceElems_of {x : GV} (h : IsSlice x) : sliceElems x = some (elemsOf x) := by
  rcases h with h | ⟨xs, h⟩ <;> subst h <;> rfl

/-- Go's `append(x, y...)` on slice values -/
def appendG (x y : GV) : GV :=
  if (elemsOf x).isEmpty && (elemsOf y).isEmpty then x else .slice (elemsOf x ++ elemsOf y)

theorem appendG_isSlice {x y : GV} (hx : IsSlice x) : IsSlice (appendG x y) := by
  unfold appendG; split
  · exact hx
  · exact Or.inr ⟨_, rfl⟩

theorem elemsOf_appendG (x y : GV) : elemsOf (appendG x y) = elemsOf x ++ elemsOf y := by
  unfold appendG; split
  · next h => simp at h; simp [h.1, h.2]
  · rfl

theorem combine_loop (g : Env) (x0 : GV) (H : Heap) : ∀ (items : List (GV × GV)) (n : Nat) (acc : GV),
    IsSlice acc → (∀ it ∈ items, IsSlice it.2) →
    loopR (n + items.length + 20) matchProg g [("nbss", acc), ("bsss", x0)] H "" "_" "bss" items
        [GS.assign false [GL.var "nbss"] [GE.call "append..." [GE.var "nbss", GE.var "bss"]]]
      = .ok (.next, [("nbss", items.foldl (fun a it => appendG a it.2) acc), ("bsss", x0)], H) := by
  intro items
  induction items with
  | nil => intro n acc _ _; simp [loopR]
  | cons it items ih =>
    intro n acc hacc hall
    obtain ⟨ik, iv⟩ := it
    have hiv : IsSlice iv := hall (ik, iv) (by simp)
    have hrest : ∀ it ∈ items, IsSlice it.2 := fun it h => hall it (by simp [h])
    have hi := ih n (appendG acc iv) (appendG_isSlice hacc) hrest
    simp [loopR, sliceElems_of hacc, sliceElems_of hiv]
    rw [show n + (items.length + 1) + 19 = n + items.length + 20 by omega]
    simpa [appendG] using hi

/-- what `combine` returns: nil for no lists, the one list itself, otherwise the lists appended -/
def combineG : List GV → GV
  | [] => .nil
  | [x] => x
  | xs => xs.foldl appendG .nil

theorem foldl_appendG_elems (xs : List GV) : ∀ acc, elemsOf (xs.foldl appendG acc) = elemsOf acc ++ xs.flatMap elemsOf := by
  induction xs with
  | nil => intro acc; simp
  | cons x xs ih => intro acc; simp [List.foldl, ih, elemsOf_appendG, List.append_assoc]

/-- the binding sets of `combine`'s result are those of its arguments, in order (`List.flatten` in the model) -/
theorem combineG_elems (xs : List GV) : elemsOf (combineG xs) = xs.flatMap elemsOf := by
  match xs with
  | [] => rfl
  | [x] => simp [combineG]
  | x :: y :: r =>
    unfold combineG
    rw [foldl_appendG_elems]; simp [elemsOf]

theorem foldl_snd (items : List (GV × GV)) (acc : GV) :
    items.foldl (fun a it => appendG a it.2) acc = (items.map (·.2)).foldl appendG acc := by
  induction items generalizing acc with
  | nil => rfl
  | cons it items ih => simp [List.foldl, ih]

theorem tr_combine (n : Nat) (g : Env) (H : Heap) (bsss : List GV) (hall : ∀ x ∈ bsss, IsSlice x) :
    callFn (n + bsss.length + 40) matchProg g "combine" .nil [.slice bsss] H = .ok ([combineG bsss], H) := by
  match bsss, hall with
  | [], _ => simp [find_combine, matchProg_combine, goLen, combineG]
  | [x], _ => simp [find_combine, matchProg_combine, goLen, combineG, indexV]
  | x :: y :: r, hall =>
    have hitems : rangeItems H (.slice (x :: y :: r)) =
        some (((List.range (x :: y :: r).length).zip (x :: y :: r)).map (fun (i, v) => (GV.int i, v))) := rfl
    have hsnd : (((List.range (x :: y :: r).length).zip (x :: y :: r)).map (fun (i, v) => (GV.int i, v))).map (·.2) = x :: y :: r := by
      simp [List.map_map, Function.comp_def]
      have := List.map_snd_zip (l₁ := List.range (x :: y :: r).length) (l₂ := x :: y :: r) (by simp)
      simpa using this
    have hlen : (((List.range (x :: y :: r).length).zip (x :: y :: r)).map (fun (i, v) => (GV.int i, v))).length = r.length + 2 := by simp
    have hl := combine_loop g (.slice (x :: y :: r)) H _ (n + 13) .nil (Or.inl rfl)
      (by intro it hit
          have : it.2 ∈ (((List.range (x :: y :: r).length).zip (x :: y :: r)).map (fun (i, v) => (GV.int i, v))).map (·.2) :=
            List.mem_map_of_mem hit
          rw [hsnd] at this; exact hall _ this)
    rw [foldl_snd, hsnd, hlen] at hl
    have e1 : ((r.length : Int) + 1 + 1 == 0) = false := by rw [beq_eq_false_iff_ne]; omega
    have e2 : ((r.length : Int) + 1 + 1 == 1) = false := by rw [beq_eq_false_iff_ne]; omega
    rw [show n + (x :: y :: r).length + 40 = (n + (x :: y :: r).length + 39) + 1 from rfl]
    simp only [callFn, find_combine]
    simp [-callFn, matchProg_combine, goLen, e1, e2, hitems]
    rw [show n + (r.length + 1 + 1) + 33 = n + 13 + (r.length + 2) + 20 by omega]
    erw [hl]
    simp [combineG]


/-! ## `copyBindingss` -/

theorem find_copyBindingss : findFn matchProg "copyBindingss" = some matchProg_copyBindingss := by rfl

/-- what `Bindings.Copy` makes of a map object -/
def copyObj (o : MapObj) : MapObj :=
  { ty := "Bindings", kvs := o.kvs.foldl (fun acc kv => minsert kv.1 kv.2 acc) [] }

theorem heapGet_append {H : Heap} {a : Nat} {o : MapObj} (extra : Heap) (h : heapGet H a = some o) :
    heapGet (H ++ extra) a = some o := by
  unfold heapGet at *
  have hl : a < H.length := by
    rcases Nat.lt_or_ge a H.length with h1 | h1
    · exact h1
    · simp [List.getElem?_eq_none h1] at h
  rw [List.getElem?_append_left hl]; exact h

def cbBody : List GS :=
  [GS.assign false [GL.var "acc"] [GE.call "append" [GE.var "acc", GE.mcall (GE.var "bs") ".Copy" []]]]

theorem cb_shape : matchProg_copyBindingss.body =
    [GS.assign true [GL.var "acc"] [GE.call "makeslice" [GE.lit (GV.str "[]Bindings"), GE.lit (GV.int 0)]],
     GS.range "" "_" "bs" (GE.var "bss") cbBody,
     GS.ret [GE.var "acc"]] := by rfl

/-- the new addresses: `H.length`, `H.length + 1`, … -/
def freshRefs (base k : Nat) : List GV := (List.range k).map (fun i => GV.ref (base + i))

theorem freshRefs_succ (base k : Nat) : freshRefs base (k + 1) = GV.ref base :: freshRefs (base + 1) k := by
  unfold freshRefs
  rw [List.range_succ_eq_map]
  simp [List.map_map, Function.comp_def, Nat.add_assoc, Nat.add_comm 1]

theorem cb_loop (g : Env) (x0 : GV) : ∀ (objs : List (Nat × MapObj)) (items : List (GV × GV)) (n K : Nat) (H : Heap) (acc : List GV),
    items.map (·.2) = objs.map (fun p => GV.ref p.1) →
    (∀ p ∈ objs, heapGet H p.1 = some p.2) → (∀ p ∈ objs, p.2.kvs.length ≤ K) →
    loopR (n + items.length + K + 40) matchProg g [("acc", .slice acc), ("bss", x0)] H "" "_" "bs" items cbBody
      = .ok (.next, [("acc", .slice (acc ++ freshRefs H.length objs.length)), ("bss", x0)], H ++ objs.map (fun p => copyObj p.2)) := by
  intro objs
  induction objs with
  | nil =>
    intro items n K H acc hi _ _
    have : items = [] := by simpa using hi
    subst this
    simp [loopR, freshRefs]
  | cons p objs ih =>
    intro items n K H acc hi hget hK
    obtain ⟨a, o⟩ := p
    match items, hi with
    | (ik, iv) :: items', hi =>
      simp only [List.map_cons, List.cons.injEq] at hi
      obtain ⟨hiv, hrest⟩ := hi
      subst hiv
      have ho : heapGet H a = some o := hget (a, o) (by simp)
      have hKo : o.kvs.length ≤ K := hK (a, o) (by simp)
      have hget' : ∀ p ∈ objs, heapGet (H ++ [copyObj o]) p.1 = some p.2 :=
        fun p hp => heapGet_append _ (hget p (by simp [hp]))
      have hK' : ∀ p ∈ objs, p.2.kvs.length ≤ K := fun p hp => hK p (by simp [hp])
      have hi' := ih items' n K (H ++ [copyObj o]) (acc ++ [GV.ref H.length]) hrest hget' hK'
      simp [-callFn, loopR, cbBody]
      rw [show n + (items'.length + 1) + K + 31 = (n + items'.length + (K - o.kvs.length) + 12) + o.kvs.length + 20 by omega,
        tr_Copy _ g H a o ho]
      simp [-callFn, sliceElems]
      rw [show n + (items'.length + 1) + K + 39 = n + items'.length + K + 40 by omega]
      have hc : ({ ty := "Bindings", kvs := List.foldl (fun acc kv => minsert kv.fst kv.snd acc) [] o.kvs } : MapObj) = copyObj o := rfl
      rw [hc]
      simp only [cbBody] at hi'
      rw [hi']
      simp [freshRefs_succ, List.append_assoc]

/-- the translated `copyBindingss`: one new map object per given map — the given maps' entries, the
    given maps themselves and everything else on the heap untouched — and the result lists the new
    objects only: no result shares a map with an argument -/
theorem tr_copyBindingss (n K : Nat) (g : Env) (H : Heap) (objs : List (Nat × MapObj))
    (hget : ∀ p ∈ objs, heapGet H p.1 = some p.2) (hK : ∀ p ∈ objs, p.2.kvs.length ≤ K) :
    callFn (n + objs.length + K + 50) matchProg g "copyBindingss" .nil [.slice (objs.map (fun p => GV.ref p.1))] H =
      .ok ([.slice (freshRefs H.length objs.length)], H ++ objs.map (fun p => copyObj p.2)) := by
  obtain ⟨items, hitems, hsnd, hlen⟩ := rangeItems_slice_snd H (objs.map (fun p => GV.ref p.1))
  have hl := cb_loop g (.slice (objs.map (fun p => GV.ref p.1))) objs items (n + 6) K H [] hsnd hget hK
  simp only [List.length_map] at hlen
  rw [show n + objs.length + K + 50 = (n + objs.length + K + 49) + 1 from rfl]
  simp only [callFn, find_copyBindingss]
  simp only [cb_shape]
  have hp : matchProg_copyBindingss.params = ["bss"] ∧ matchProg_copyBindingss.recv = "" ∧
      matchProg_copyBindingss.variadic = false := ⟨rfl, rfl, rfl⟩
  simp [-callFn, hp.1, hp.2.1, hp.2.2, hitems]
  rw [show n + objs.length + K + 46 = n + 6 + items.length + K + 40 by omega, hl]
  simp


/-! ## `Matches`, `Match` (package function) -/

theorem find_Matches : findFn matchProg ".Matches" = some matchProg_MMatches := by rfl
theorem find_MatchFn : findFn matchProg "Match" = some matchProg_Match := by rfl

/-- the translated `Matcher.Matches` is `Match` with a new, empty bindings map -/
theorem tr_Matches (n : Nat) (g : Env) (H : Heap) (m p f : GV) :
    callFn (n + 20) matchProg g ".Matches" m [p, f] H =
      callFn (n + 16) matchProg g ".Match" m [p, f, .ref H.length] (H ++ [{ ty := "Bindings", kvs := [] }]) := by
  conv =>
    lhs
    rw [show n + 20 = (n + 19) + 1 from rfl]
    simp only [callFn, find_Matches]
  simp [-callFn, matchProg_MMatches]
  cases callFn (n + 16) matchProg g ".Match" m [p, f, .ref H.length] (H ++ [{ ty := "Bindings", kvs := [] }]) with
  | error e => rfl
  | ok r => obtain ⟨vs, h1⟩ := r; rfl

/-- the package function `Match` is `DefaultMatcher.Match` -/
theorem tr_MatchFn (n : Nat) (g : Env) (H : Heap) (dm p f bs : GV) (hg : envGet "DefaultMatcher" g = some dm) :
    callFn (n + 20) matchProg g "Match" .nil [p, f, bs] H = callFn (n + 16) matchProg g ".Match" dm [p, f, bs] H := by
  conv =>
    lhs
    rw [show n + 20 = (n + 19) + 1 from rfl]
    simp only [callFn, find_MatchFn]
  simp [-callFn, matchProg_Match, hg]
  cases callFn (n + 16) matchProg g ".Match" dm [p, f, bs] H with
  | error e => rfl
  | ok r => obtain ⟨vs, h1⟩ := r; rfl


/-! ## `copyMap` -/

theorem find_copyMap : findFn matchProg "copyMap" = some matchProg_copyMap := by rfl

theorem copyMap_loop (g : Env) (rb : GV) (L : Nat) (ty : String) (items : List (GV × GV)) :
    ∀ (n : Nat) (done : List (GV × GV)) (H : Heap), heapGet H L = some { ty := ty, kvs := done } →
    loopR (n + items.length + 8) matchProg g [("target", .ref L), ("source", rb)] H "" "p" "v" items
        [GS.assign false [GL.index (GE.var "target") (GE.var "p")] [GE.var "v"]]
      = .ok (.next, [("target", .ref L), ("source", rb)],
             heapSet H L { ty := ty, kvs := items.foldl (fun acc kv => minsert kv.1 kv.2 acc) done }) := by
  induction items with
  | nil =>
    intro n done H hH
    simp [loopR]
    exact (heapSet_self H L _ hH).symm
  | cons it items ih =>
    intro n done H hH
    obtain ⟨ik, iv⟩ := it
    have := ih n (minsert ik iv done) (heapSet H L { ty := ty, kvs := minsert ik iv done }) (heapGet_set_same H L _ _ hH)
    simp [loopR, hH]
    rw [show n + (items.length + 1) + 7 = n + items.length + 8 by omega, this, heapSet_set]

/-- the translated `copyMap` (the candidate index of `arraycatMatch`): a new map object with the
    entries of the given one; the given one is not written -/
theorem tr_copyMap (n : Nat) (g : Env) (H : Heap) (a : Nat) (o : MapObj) (ho : heapGet H a = some o) :
    callFn (n + o.kvs.length + 20) matchProg g "copyMap" .nil [.ref a] H =
      .ok ([.ref H.length], H ++ [{ ty := "map[int]interface{}", kvs := o.kvs.foldl (fun acc kv => minsert kv.1 kv.2 acc) [] }]) := by
  have hget : heapGet (H ++ [{ ty := "map[int]interface{}", kvs := [] }]) H.length = some { ty := "map[int]interface{}", kvs := [] } := by
    simp [heapGet]
  have hloop := copyMap_loop g (.ref a) H.length "map[int]interface{}" o.kvs (n + 8) [] (H ++ [{ ty := "map[int]interface{}", kvs := [] }]) hget
  have hitems : rangeItems (H ++ [{ ty := "map[int]interface{}", kvs := [] }]) (.ref a) = some o.kvs := by
    have : heapGet (H ++ [{ ty := "map[int]interface{}", kvs := [] }]) a = some o := heapGet_append _ ho
    simp [rangeItems, this]
  rw [show n + o.kvs.length + 20 = (n + o.kvs.length + 19) + 1 from rfl]
  simp only [callFn, find_copyMap]
  simp [-callFn, matchProg_copyMap, hitems]
  rw [show n + o.kvs.length + 16 = n + 8 + o.kvs.length + 8 by omega, hloop]
  simp [heapSet]


/-! ## `matchWithBindingss` (relative to what `Match` does on one bindings map) -/

theorem find_mwb : findFn matchProg ".matchWithBindingss" = some matchProg_MmatchWithBindingss := by rfl

def mwbBody : List GS :=
  match matchProg_MmatchWithBindingss.body with
  | [_, GS.range _ _ _ _ body, _] => body
  | _ => []

theorem mwb_shape : matchProg_MmatchWithBindingss.body =
    [GS.assign true [GL.var "acc"] [GE.call "makeslice" [GE.lit (GV.str "[]Bindings"), GE.lit (GV.int 0)]],
     GS.range "" "_" "bs" (GE.var "bss") mwbBody,
     GS.ret [GE.var "acc", GE.lit GV.nil]] := by rfl

/-- `matchWithBindingss`, given what `Match` does on one bindings map (`M`): the results in order,
    a nil result skipped, the first error handed back with a nil result -/
def mwbSpec (M : GV → Heap → R (List GV × Heap)) : List GV → List GV → Heap → R (Flow × List GV × Heap)
  | [], acc, H => .ok (.next, acc, H)
  | b :: bs, acc, H =>
    match M b H with
    | .error e => .error e
    | .ok ([r, .nil], H') =>
      (match r with
       | .nil => mwbSpec M bs acc H'
       | .slice xs => mwbSpec M bs (acc ++ xs) H'
       | _ => .error (.stuck "append..."))
    | .ok ([_, e], H') => .ok (.ret [.nil, e], acc, H')
    | .ok _ => .error (.stuck "assignment count")

theorem mwb_loop (g : Env) (m p f x0 : GV) (M : GV → Heap → R (List GV × Heap)) (K : Nat)
    (hM : ∀ k, K ≤ k → ∀ b H, callFn k matchProg g ".Match" m [p, f, b] H = M b H) :
    ∀ (items : List (GV × GV)) (n : Nat) (acc : List GV) (H : Heap),
    loopR (n + K + items.length + 30) matchProg g
        [("acc", .slice acc), ("m", m), ("bss", x0), ("pattern", p), ("fact", f)] H "" "_" "bs" items mwbBody =
      (match mwbSpec M (items.map (·.2)) acc H with
       | .error e => .error e
       | .ok (fl, acc', H') => .ok (fl, [("acc", .slice acc'), ("m", m), ("bss", x0), ("pattern", p), ("fact", f)], H')) := by
  intro items
  induction items with
  | nil => intro n acc H; simp [loopR, mwbSpec]
  | cons it items ih =>
    intro n acc H
    obtain ⟨ik, b⟩ := it
    simp only [List.map_cons, mwbSpec]
    have hcall : ∀ j, callFn (n + K + (items.length + 1) + j) matchProg g ".Match" m [p, f, b] H = M b H :=
      fun j => hM _ (by omega) b H
    simp [-callFn, loopR, mwbBody, matchProg_MmatchWithBindingss]
    rw [hcall 25]
    cases hm : M b H with
    | error e => simp
    | ok r =>
      obtain ⟨vs, H'⟩ := r
      match vs with
      | [] => simp
      | [_] => simp
      | _ :: _ :: _ :: _ => simp
      | [r, e] =>
        have hi := ih n
        simp only [mwbBody, matchProg_MmatchWithBindingss] at hi
        cases e with
        | nil =>
          cases r with
          | nil =>
            simp [-callFn]
            rw [show n + K + (items.length + 1) + 29 = n + K + items.length + 30 by omega]
            exact hi acc H'
          | slice xs =>
            simp [-callFn, sliceElems]
            rw [show n + K + (items.length + 1) + 29 = n + K + items.length + 30 by omega]
            have hacc : (if acc = [] ∧ xs = [] then GV.slice acc else GV.slice (acc ++ xs)) = GV.slice (acc ++ xs) := by
              split
              · next h => rw [h.1, h.2]; rfl
              · rfl
            rw [hacc]
            exact hi (acc ++ xs) H'
          | _ => simp [-callFn, sliceElems]
        | _ => simp [-callFn]

theorem mwb_params : matchProg_MmatchWithBindingss.params = ["bss", "pattern", "fact"] ∧
    matchProg_MmatchWithBindingss.recv = "m" ∧ matchProg_MmatchWithBindingss.variadic = false := ⟨rfl, rfl, rfl⟩

/-- the translated `matchWithBindingss`, given what `Match` does on one bindings map: `Match` is
    called once per bindings map, in order, on the heap the previous call left; the first error ends
    the loop and comes back with a nil result; nil results are skipped; the others are appended in
    order -/
theorem tr_matchWithBindingss (n K : Nat) (g : Env) (m p f : GV) (H : Heap) (bss : List GV)
    (M : GV → Heap → R (List GV × Heap))
    (hM : ∀ k, K ≤ k → ∀ b H, callFn k matchProg g ".Match" m [p, f, b] H = M b H) :
    callFn (n + K + bss.length + 40) matchProg g ".matchWithBindingss" m [.slice bss, p, f] H =
      (match mwbSpec M bss [] H with
       | .error e => .error e
       | .ok (.next, acc, H') => .ok ([.slice acc, .nil], H')
       | .ok (.ret vs, _, H') => .ok (vs, H')
       | .ok _ => .error (.stuck "break/continue left a function")) := by
  obtain ⟨items, hitems, hsnd, hlen⟩ := rangeItems_slice_snd H bss
  have hl := mwb_loop g m p f (.slice bss) M K hM items (n + 6) [] H
  rw [hsnd] at hl
  rw [show n + K + bss.length + 40 = (n + K + bss.length + 39) + 1 from rfl]
  simp only [callFn, find_mwb]
  simp only [mwb_shape]
  simp [-callFn, mwb_params.1, mwb_params.2.1, mwb_params.2.2, hitems]
  rw [show n + K + bss.length + 36 = n + 6 + K + items.length + 30 by omega, hl]
  cases mwbSpec M bss [] H with
  | error e => simp
  | ok r =>
    obtain ⟨fl, acc, H'⟩ := r
    cases fl <;> simp


/-! ## `Bindings.Extend`, `NewBindings` -/

theorem find_Extend : findFn matchProg ".Extend" = some matchProg_MExtend := by rfl
theorem find_NewBindings : findFn matchProg "NewBindings" = some matchProg_NewBindings := by rfl

/-- `Bindings.Extend` writes into the receiver and hands the receiver back (which is why the engine
    only ever calls it on a copy) -/
theorem tr_Extend (n : Nat) (g : Env) (H : Heap) (a : Nat) (o : MapObj) (p : String) (v : GV) (ho : heapGet H a = some o) :
    callFn (n + 12) matchProg g ".Extend" (.ref a) [.str p, v] H =
      .ok ([.ref a], heapSet H a { o with kvs := minsert (.str p) v o.kvs }) := by
  simp [find_Extend, matchProg_MExtend, ho]

/-- `NewBindings` is a new, empty map -/
theorem tr_NewBindings (n : Nat) (g : Env) (H : Heap) :
    callFn (n + 10) matchProg g "NewBindings" .nil [] H = .ok ([.ref H.length], H ++ [{ ty := "Bindings", kvs := [] }]) := by
  simp [find_NewBindings, matchProg_NewBindings]


end Sheens.TrMatch
