import Sheens.GoSem
import Sheens.Gen.GoAst
import Sheens.Match
open Go Gen.GoAst

/-!
# Tie C, proved part: the translated leaf functions of `match/match.go`

`Gen.GoAst.matchProg` is what `go/go2lean` made of `match/match.go` on this run; `callFn` is
the interpreter of `GoSem.lean`.  Each theorem says, for **all** arguments, heaps and enough
fuel, that running the translated declaration returns what the hand-written model's function
returns — so the theorems about the model (C01–C03, C07) speak about these functions of the
source as it is now, not about a transcription of them.  A change to one of these functions
changes the regenerated syntax, and the proof no longer checks.
-/

namespace Sheens.TrMatch

attribute [local simp] callFn bindParams execB execS execOpt execBlock evalE evalArgs evalOpt eval1 assignAll assignTo
  envGet envSet envLeave builtin typeOf parseTy zeroOf truthy binop goEq keyEq pickCase anyCase Except.map toF64

theorem find_IsVariable : findFn matchProg ".IsVariable" = some matchProg_MIsVariable := by rfl
theorem find_IsOptionalVariable : findFn matchProg ".IsOptionalVariable" = some matchProg_MIsOptionalVariable := by rfl
theorem find_IsAnonymousVariable : findFn matchProg ".IsAnonymousVariable" = some matchProg_MIsAnonymousVariable := by rfl
theorem find_IsConstant : findFn matchProg ".IsConstant" = some matchProg_MIsConstant := by rfl

@[simp] theorem prefix_q (s : String) : (['?'].isPrefixOf s.toList) = isVar s := by
  unfold isVar
  cases h : s.toList with
  | nil => simp
  | cons c cs =>
    by_cases hc : c = '?'
    · subst hc; simp [List.isPrefixOf]
    · have : ('?' == c) = false := by simp; exact fun h => hc h.symm
      simp [List.isPrefixOf, this]
      split
      · next h2 => cases h2; exact absurd rfl hc
      · rfl

/-- the translated `Matcher.IsVariable` computes the model's `isVar` -/
theorem tr_IsVariable (n : Nat) (g : Env) (m : GV) (s : String) (h : Heap) :
    callFn (n + 10) matchProg g ".IsVariable" m [.str s] h = .ok ([.bool (isVar s)], h) := by
  simp [find_IsVariable, matchProg_MIsVariable]

/-- `Matcher.IsOptionalVariable` on any interface value -/
def isOptVarG : GV → Bool
  | .str s => ['?', '?'].isPrefixOf s.toList
  | _ => false

theorem tr_IsOptionalVariable (n : Nat) (g : Env) (m x : GV) (h : Heap) :
    callFn (n + 12) matchProg g ".IsOptionalVariable" m [x] h = .ok ([.bool (isOptVarG x)], h) := by
  cases x with
  | ref a => cases hh : heapGet h a <;> simp [find_IsOptionalVariable, matchProg_MIsOptionalVariable, isOptVarG, hh]
  | _ => simp [find_IsOptionalVariable, matchProg_MIsOptionalVariable, isOptVarG]

theorem isOptVarG_str (s : String) : isOptVarG (.str s) = isOptVar (.str s) := by
  simp only [isOptVarG, isOptVar]
  cases h : s.toList with
  | nil => simp
  | cons c cs =>
    cases cs with
    | nil => by_cases hc : c = '?' <;> simp [List.isPrefixOf, hc]
    | cons d ds =>
      by_cases hc : c = '?'
      · by_cases hd : d = '?'
        · subst hc; subst hd; simp [List.isPrefixOf]
        · subst hc
          have : ('?' == d) = false := by simp; exact fun h => hd h.symm
          simp [List.isPrefixOf, this]
          split
          · next h2 => cases h2; exact absurd rfl hd
          · rfl
      · have : ('?' == c) = false := by simp; exact fun h => hc h.symm
        simp [List.isPrefixOf, this]
        split
        · next h2 => cases h2; exact absurd rfl hc
        · rfl

theorem tr_IsAnonymousVariable (n : Nat) (g : Env) (m : GV) (s : String) (h : Heap) :
    callFn (n + 10) matchProg g ".IsAnonymousVariable" m [.str s] h = .ok ([.bool (isAnon s)], h) := by
  simp [find_IsAnonymousVariable, matchProg_MIsAnonymousVariable, isAnon]

theorem tr_IsConstant (n : Nat) (g : Env) (m : GV) (s : String) (h : Heap) :
    callFn (n + 20) matchProg g ".IsConstant" m [.str s] h = .ok ([.bool (!isVar s)], h) := by
  simp [find_IsConstant, matchProg_MIsConstant, find_IsVariable, matchProg_MIsVariable]


theorem find_fudge : findFn matchProg "fudge" = some matchProg_fudge := by rfl

/-- `fudge` on interface values: every numeric Go type becomes `float64` -/
def fudgeG : GV → GV
  | .numT _ i => .f64 i
  | .int i => .f64 i
  | v => v

theorem tr_fudge (n : Nat) (g : Env) (x : GV) (h : Heap) :
    callFn (n + 12) matchProg g "fudge" .nil [x] h = .ok ([fudgeG x], h) := by
  cases x with
  | ref a => cases hh : heapGet h a <;> simp [find_fudge, matchProg_fudge, fudgeG, hh]
  | numT t i => cases t <;> simp [find_fudge, matchProg_fudge, fudgeG]
  | _ => simp [find_fudge, matchProg_fudge, fudgeG]


end Sheens.TrMatch
