import Sheens.ES
import Sheens.Proofs.EngineLemmas

/-!
# Property C07 — processing is total; failures become error states or errors

In the model, every Go operation that could panic on a model-representable input (nil bindings,
nil `*Execution`, nil `*Control`, negative limit) is an explicit case of a total function: after the
repairs recorded in `known_findings.json` no `panic` arm is left in `execWrap`, `step` and `walk`
(the correspondence run checks, for every generated nil/negative/failing combination, that the
implementation does not panic where the model returns normally).  What remains to be *proved* is that
every failure is surfaced.
-/

namespace Sheens.C07

/-- Any error returned by a step at a node other than the error node becomes a transition to the
    error node whose bindings carry the error text, the node at which it occurred and the bindings
    at that point. -/
theorem walk_surfaces_errors (s : Spec) (st : State) (pending : Option V) (e : StepErr)
    (he : (step s st pending).err = some e) (hn : (st.node == "error") = false) :
    ∃ eb, (walkStride s st pending).to = some { node := "error", bs := some eb } ∧
      lookup "error" eb = some (.str (errText s.name e)) ∧
      lookup "lastNode" eb = some (.str st.node) ∧
      lookup "lastBindings" eb = some (.obj (copyB st.bs)) := by
  unfold walkStride
  simp only [he, hn]
  refine ⟨_, rfl, ?_, ?_, ?_⟩
  · rw [lookup_insertB_ne _ _ (by decide), lookup_insertB_ne _ _ (by decide), lookup_insertB_self]
  · rw [lookup_insertB_ne _ _ (by decide), lookup_insertB_self]
  · rw [lookup_insertB_self]

/-- Without an error the walk takes the stride the step produced. -/
theorem walkStride_no_error (s : Spec) (st : State) (pending : Option V) (sd : Stride)
    (he : (step s st pending).err = none) (hs : (step s st pending).stride = some sd) :
    walkStride s st pending = sd := by
  unfold walkStride
  simp only [he, hs]

/-- An action failure is surfaced at the designated action-error node with the error text bound. -/
theorem action_error_surfaces (s : Spec) (st : State) (pending : Option V) (n : Node) (a : ActionF)
    (e : String)
    (hc : s.compiled = true) (hn : findNode st.node s.nodes = some n) (ha : n.action = some a)
    (hm : ∀ br, n.branches = some br → br.type ≠ "message")
    (he : (execWrap a st.bs).err = some e) (hb : s.actionErrorBranches = false)
    (ht : s.actionErrorNode ≠ "") :
    ∃ eb, (walkStride s st pending).to = some { node := s.actionErrorNode, bs := some eb } ∧
      lookup "actionError" eb = some (.str e) ∧ lookup "error" eb = some (.str e) := by
  refine ⟨actErrBs e st.bs, ?_, ?_, ?_⟩
  · unfold walkStride
    rw [step_action_err_node s st pending n a e hc hn ha hm he hb ht]
  · unfold actErrBs
    rw [lookup_insertB_ne _ _ (by decide), lookup_insertB_self]
  · unfold actErrBs
    rw [lookup_insertB_self]

/-- An action failure with no error settings ends at the error node with the error text. -/
theorem action_error_default (s : Spec) (st : State) (pending : Option V) (n : Node) (a : ActionF)
    (e : String)
    (hc : s.compiled = true) (hn : findNode st.node s.nodes = some n) (ha : n.action = some a)
    (hm : ∀ br, n.branches = some br → br.type ≠ "message")
    (he : (execWrap a st.bs).err = some e) (hb : s.actionErrorBranches = false)
    (ht : s.actionErrorNode = "") (hne : (st.node == "error") = false) :
    ∃ eb, (walkStride s st pending).to = some { node := "error", bs := some eb } ∧
      lookup "error" eb = some (.str e) ∧ lookup "lastNode" eb = some (.str st.node) := by
  have h := step_action_err_ret s st pending n a e hc hn ha hm he hb ht
  obtain ⟨eb, h1, h2, h3, _⟩ := walk_surfaces_errors s st pending (.action e) (by rw [h]) hne
  exact ⟨eb, h1, h2, h3⟩

/-- An unknown node (or an uncompiled spec) is an error of the step, never a crash, whatever the
    bindings (absent included). -/
theorem unknown_node_is_error (s : Spec) (st : State) (pending : Option V)
    (hc : s.compiled = true) (hn : findNode st.node s.nodes = none) :
    (step s st pending).stride = none ∧ (step s st pending).err = some (.unknownNode st.node) := by
  rw [step_unknown s st pending hc hn]
  exact ⟨rfl, rfl⟩

/-- `FuncAction.Exec` always hands back an execution, whatever the action returned. -/
theorem execWrap_exe_some (a : ActionF) (bs : Option Bs) : (execWrap a bs).exe ≠ none := by
  exact execWrap_exe_ne_none a bs

end Sheens.C07
