import Sheens.ES

/-! Property C07 — theorems (in progress). -/
