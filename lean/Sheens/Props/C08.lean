import Sheens.ES

/-! Property C08 — theorems (in progress). -/
