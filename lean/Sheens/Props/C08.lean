import Sheens.ES
import Sheens.Proofs.EngineLemmas

/-!
# Property C08 — emission is atomic

For all DSL programs in the ECMAScript flavour (every order of emit / mutate / fail operations,
failure after the k-th emit for every k, timeout, bad return value) and for all specs.
-/

namespace Sheens.C08

/-- An ECMAScript action that fails — by throwing, timing out, emitting something unserialisable or
    returning something that is not bindings — hands back no execution, hence no emissions. -/
theorem es_failure_no_execution (p : Prog) (bs : Option Bs) (hes : p.native = false)
    (e : String) (he : (p.run bs).err = some e) : (p.run bs).exe = none := by
  simp only [Prog.run] at he ⊢
  generalize runOps p.ops (copyB bs) [] = r at he ⊢
  rcases r with ⟨x, b, em⟩ | ⟨b, em⟩
  · cases x <;> simp_all
  · cases hr : p.ret <;> simp_all

/-- Through `FuncAction.Exec` such a failure carries an empty emission buffer. -/
theorem es_failure_emits_nothing (p : Prog) (bs : Option Bs) (hes : p.native = false)
    (e : String) (he : (execWrap p.run bs).err = some e) :
    (execWrap p.run bs).exe = some (none, []) := by
  rw [execWrap_err] at he
  have := es_failure_no_execution p bs hes e he
  unfold execWrap
  simp only [this]

/-- A step whose action hands back no emissions together with its error emits nothing, however the
    error is routed. -/
theorem failing_action_emits_nothing (s : Spec) (st : State) (pending : Option V) (n : Node)
    (a : ActionF) (e : String)
    (hn : findNode st.node s.nodes = some n) (ha : n.action = some a)
    (he : (execWrap a st.bs).err = some e) (hx : (execWrap a st.bs).exe = some (none, [])) :
    ∀ sd, (step s st pending).stride = some sd → sd.emitted = [] := by
  intro sd hsd
  have hx2 : (exeOut (execWrap a st.bs).exe).2 = [] := by rw [hx]; rfl
  cases step_cases s st pending with
  | nostride h => rw [h] at hsd; cases hsd
  | noaction n' hn' ha' h => rw [hn] at hn'; cases hn'; rw [ha] at ha'; cases ha'
  | ok n' a' hn' ha' hm he' h =>
    rw [hn] at hn'; cases hn'; rw [ha] at ha'; cases ha'; rw [he] at he'; cases he'
  | errBranches n' a' e' hn' ha' hm he' h =>
    rw [hn] at hn'; cases hn'; rw [ha] at ha'; cases ha'
    obtain ⟨sd', h1, h2, _⟩ := stepRest_stride st n (some (actErrBs e' st.bs)) (exeOut (execWrap a st.bs).exe).2 pending
    rw [h, h1] at hsd; cases hsd; rw [h2, hx2]
  | errNode n' a' e' hn' ha' hm he' h =>
    rw [hn] at hn'; cases hn'; rw [ha] at ha'; cases ha'
    rw [h] at hsd; cases hsd; exact hx2

/-- What a step emits is exactly what the node's action emitted: guards never contribute. -/
theorem step_emitted_is_actions (s : Spec) (st : State) (pending : Option V) (sd : Stride)
    (h : (step s st pending).stride = some sd) :
    sd.emitted = [] ∨
      ∃ n a bsx em, findNode st.node s.nodes = some n ∧ n.action = some a ∧
        (execWrap a st.bs).exe = some (bsx, em) ∧ sd.emitted = em := by
  have key : ∀ (a : ActionF), ∃ bsx em, (execWrap a st.bs).exe = some (bsx, em) ∧
      (exeOut (execWrap a st.bs).exe).2 = em := by
    intro a
    have := execWrap_exe_ne_none a st.bs
    generalize (execWrap a st.bs).exe = x at this ⊢
    rcases x with _ | ⟨_ | b, em⟩
    · exact absurd rfl this
    · exact ⟨_, _, rfl, rfl⟩
    · exact ⟨_, _, rfl, rfl⟩
  cases step_cases s st pending with
  | nostride h' => rw [h'] at h; cases h
  | noaction n hn ha h' =>
    obtain ⟨sd', h1, h2, _⟩ := stepRest_stride st n st.bs [] pending
    rw [h', h1] at h; cases h; exact Or.inl h2
  | ok n a hn ha hm he h' =>
    obtain ⟨sd', h1, h2, _⟩ := stepRest_stride st n (some (exeOut (execWrap a st.bs).exe).1) (exeOut (execWrap a st.bs).exe).2 pending
    rw [h', h1] at h; cases h
    obtain ⟨bsx, em, k1, k2⟩ := key a
    exact Or.inr ⟨n, a, bsx, em, hn, ha, k1, by rw [h2, k2]⟩
  | errBranches n a e hn ha hm he h' =>
    obtain ⟨sd', h1, h2, _⟩ := stepRest_stride st n (some (actErrBs e st.bs)) (exeOut (execWrap a st.bs).exe).2 pending
    rw [h', h1] at h; cases h
    obtain ⟨bsx, em, k1, k2⟩ := key a
    exact Or.inr ⟨n, a, bsx, em, hn, ha, k1, by rw [h2, k2]⟩
  | errNode n a e hn ha hm he h' =>
    rw [h'] at h; cases h
    obtain ⟨bsx, em, k1, k2⟩ := key a
    exact Or.inr ⟨n, a, bsx, em, hn, ha, k1, k2⟩

/-- A node without an action emits nothing (in particular its guards do not). -/
theorem no_action_no_emission (s : Spec) (st : State) (pending : Option V) (n : Node)
    (hn : findNode st.node s.nodes = some n) (ha : n.action = none) :
    ∀ sd, (step s st pending).stride = some sd → sd.emitted = [] := by
  intro sd h
  rcases step_emitted_is_actions s st pending sd h with h | ⟨n', a, _, _, hn', ha', _, _⟩
  · exact h
  · rw [hn] at hn'; cases hn'; rw [ha] at ha'; cases ha'

/-- The emissions of a stride of a walk are those of its step (the error transition adds none). -/
theorem walkStride_emitted (s : Spec) (st : State) (pending : Option V) :
    (walkStride s st pending).emitted =
      (match (step s st pending).stride with | some sd => sd.emitted | none => []) := by
  unfold walkStride
  simp only
  cases (step s st pending).err with
  | none => simp only; cases (step s st pending).stride <;> rfl
  | some e =>
    simp only
    split <;> cases (step s st pending).stride <;> rfl

/-- The messages reported for a walk are the concatenation, in execution order, of the strides'
    emissions (`Walked.DoEmitted`). -/
theorem walk_emitted_in_order (w : Walked) :
    emittedOf w = (w.strides.map (·.emitted)).flatten := by
  unfold emittedOf
  rw [List.flatMap_def]

end Sheens.C08
