import Sheens.MCrew

/-! Property C16 — theorems (in progress). -/
