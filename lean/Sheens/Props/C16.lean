import Sheens.MCrew
import Sheens.Proofs.MCrewLemmas

/-!
# Property C16 — mcrew: memory advances only with a successful write

Over the model `MCrew.step` / `MCrew.run` of the (repaired) service, for all operation sequences —
the store's failures are operations of the sequence (`storeDown` / `storeUp`), so "every position
at which the store starts or stops failing" is part of the quantifier — all specs (`specs` is any
function) and all limits.  Each operation is one atomic region (the crew lock is held from the
check to the in-memory update), which is why the sequential model is the model of concurrent
clients too; that the lock really spans those regions is re-checked from the source on every run
(`FactsOK.mcrew_*`), and `sync.RWMutex` / bbolt are trusted.
-/

namespace Sheens.C16

open MCrew

/-- One operation preserves the agreement. -/
theorem step_preserves (specs : String → Option Spec) (limit : Option Int) (s : Svc) (op : MCrew.Op)
    (h : s.mem = s.store) : (step specs limit s op).1.mem = (step specs limit s op).1.store := by
  cases op with
  | storeDown => exact h
  | storeUp => exact h
  | add spec id node bs =>
    have := step_add specs limit s spec id node bs
    simp only at this
    rw [this]
    split
    · exact h
    · split
      · simp only [h]
      · exact h
  | rem id =>
    rw [step_rem]
    split
    · simp only [h]
    · exact h
  | process msg =>
    simp only [MCrew.step]
    split
    · exact h
    · next changed _ =>
      split
      · exact h
      · next st hw =>
        simp only
        rw [writeAll_some hw, applyW_map_some, h]

/-- generalisation of `mem_eq_store` over the start state -/
theorem run_preserves (specs : String → Option Spec) (limit : Option Int) (ops : List MCrew.Op) :
    ∀ s : Svc, s.mem = s.store → (run specs limit s ops).mem = (run specs limit s ops).store := by
  induction ops with
  | nil => intro s h; exact h
  | cons op rest ih =>
    intro s h
    simp only [run, List.foldl_cons]
    exact ih _ (step_preserves specs limit s op h)

/-- After any sequence of operations, with storage failures at arbitrary points, the in-memory crew
    equals the stored records. -/
theorem mem_eq_store (specs : String → Option Spec) (limit : Option Int) (ops : List MCrew.Op) :
    (run specs limit init ops).mem = (run specs limit init ops).store :=
  run_preserves specs limit ops init rfl

/-- An operation that does not succeed (failed write, existing id, unknown spec) leaves the service
    exactly as it was. -/
theorem failed_op_is_noop (specs : String → Option Spec) (limit : Option Int) (s : Svc) (op : MCrew.Op)
    (h : (step specs limit s op).2 ≠ MCrew.Res.ok) : (step specs limit s op).1 = s := by
  cases op with
  | storeDown => simp [MCrew.step] at h
  | storeUp => simp [MCrew.step] at h
  | add spec id node bs =>
    have := step_add specs limit s spec id node bs
    simp only at this
    rw [this] at h ⊢
    split
    · rfl
    · split
      · next h1 h2 => simp [h1, h2] at h
      · rfl
  | rem id =>
    rw [step_rem] at h ⊢
    split
    · next h1 => simp [h1] at h
    · rfl
  | process msg =>
    simp only [MCrew.step] at h ⊢
    split
    · rfl
    · split
      · rfl
      · next hw1 _ _ hw2 => simp [hw1, hw2] at h

/-- one step with the store down: nothing moves and the store stays down -/
theorem step_frozen (specs : String → Option Spec) (limit : Option Int) (s : Svc) (op : MCrew.Op)
    (hd : s.storeUp = false) (hno : op ≠ MCrew.Op.storeUp) :
    (step specs limit s op).1.mem = s.mem ∧ (step specs limit s op).1.store = s.store ∧
    (step specs limit s op).1.storeUp = false := by
  cases op with
  | storeDown => exact ⟨rfl, rfl, rfl⟩
  | storeUp => exact absurd rfl hno
  | add spec id node bs =>
    have := step_add specs limit s spec id node bs
    simp only at this
    rw [this]
    split
    · exact ⟨rfl, rfl, hd⟩
    · simp only [hd]; exact ⟨rfl, rfl, hd⟩
  | rem id =>
    rw [step_rem]
    simp only [hd]; exact ⟨rfl, rfl, hd⟩
  | process msg =>
    simp only [MCrew.step]
    split
    · exact ⟨rfl, rfl, hd⟩
    · next changed _ =>
      split
      · exact ⟨rfl, rfl, hd⟩
      · next st hw =>
        obtain ⟨he, hst⟩ := writeAll_down hd hw
        have hc : changed = [] := by
          cases changed with
          | nil => rfl
          | cons _ _ => simp at he
        subst hc
        exact ⟨rfl, hst, hd⟩

/-- While the store is failing, memory does not move (whatever the operations, until `storeUp`). -/
theorem memory_frozen_while_store_down (specs : String → Option Spec) (limit : Option Int) (s : Svc)
    (ops : List MCrew.Op) (hd : s.storeUp = false) (hno : ∀ op ∈ ops, op ≠ MCrew.Op.storeUp) :
    (run specs limit s ops).mem = s.mem ∧ (run specs limit s ops).store = s.store := by
  induction ops generalizing s with
  | nil => exact ⟨rfl, rfl⟩
  | cons op rest ih =>
    simp only [run, List.foldl_cons]
    obtain ⟨h1, h2, h3⟩ := step_frozen specs limit s op hd (hno op (by simp))
    have := ih (step specs limit s op).1 h3 (fun o ho => hno o (by simp [ho]))
    simp only [run] at this
    rw [this.1, this.2, h1, h2]
    exact ⟨rfl, rfl⟩

/-- A successful `add` makes the machine known to memory and store alike; a successful `rem` removes
    it from both. -/
theorem add_ok (specs : String → Option Spec) (limit : Option Int) (s : Svc) (spec id node : String)
    (bs : Option Bs) (h : (step specs limit s (.add spec id node bs)).2 = MCrew.Res.ok) :
    let s' := (step specs limit s (.add spec id node bs)).1
    (Sio.find id s'.mem).isSome ∧ (Sio.find id s'.store).isSome := by
  have := step_add specs limit s spec id node bs
  simp only at this
  simp only
  rw [this] at h ⊢
  split at h
  · simp at h
  · split at h
    · next h1 h2 =>
      simp only [if_neg h1, if_pos h2, Sio.find_put_self]
      exact ⟨rfl, rfl⟩
    · simp at h

theorem rem_ok (specs : String → Option Spec) (limit : Option Int) (s : Svc) (id : String)
    (h : (step specs limit s (.rem id)).2 = MCrew.Res.ok) :
    let s' := (step specs limit s (.rem id)).1
    Sio.find id s'.mem = none ∧ Sio.find id s'.store = none := by
  simp only
  rw [step_rem] at h ⊢
  split at h
  · next h1 =>
    simp only [if_pos h1, Sio.find_del_self, and_self]
  · simp at h

end Sheens.C16
