import Sheens.Watcher
import Sheens.Engine
import Sheens.Proofs.WatcherInv
import Sheens.Proofs.EngineLemmas

/-!
# Property C11 — action timeouts are enforced  (partial: wall-clock promptness and goja's interrupt
latency are trusted; what is proved is the protocol, over all interleavings)
-/

namespace Sheens.C11

open Watcher

def Reachable (terminates expired : Bool) (s : St) : Prop := ∃ tr, run terminates (St.init expired) tr = some s

/-- `cancel()` is called before `Exec` returns. -/
theorem cancel_before_return (t e : Bool) (s : St) (h : Reachable t e s) :
    (∃ i, s.main = .done i ∨ s.main = .cancelled i) → s.cancelled = true := by
  obtain ⟨tr, htr⟩ := h
  have hi := inv_reachable t e s tr htr
  rcases s with ⟨m, w, pd, c, p⟩
  rintro ⟨i, hm | hm⟩ <;> simp only at hm <;> subst hm <;> cases c <;> simp_all [inv]

/-- No goroutine outlives the call: once `Exec` has returned, the watcher is either gone or has only
    enabled steps left (it is never blocked forever), and at quiescence it is gone. -/
theorem watcher_never_blocked (t e : Bool) (s : St) (i : Bool) (h : Reachable t e s) (hd : s.main = .done i) :
    (s.watch = .waiting → enabled t s .wake = true) ∧
    (s.watch = .woke → enabled t s .interrupt = true) ∧
    (quiescent t s = true → s.watch = .gone) := by
  obtain ⟨tr, htr⟩ := h
  have hi := inv_reachable t e s tr htr
  rcases s with ⟨m, w, pd, c, p⟩
  simp only at hd
  subst hd
  cases w <;> cases pd <;> cases c <;> cases p <;> cases t <;> cases i <;>
    first
    | (exact absurd hi (by decide))
    | (refine ⟨?_, ?_, ?_⟩ <;> decide)

/-- A script that does not terminate by itself can only leave `running` through an interrupt, and
    the result is then the interrupted one. -/
theorem nonterminating_ends_interrupted (e : Bool) (s : St) (i : Bool) (h : Reachable false e s)
    (hd : s.main = .returned i ∨ s.main = .cancelled i ∨ s.main = .done i) : i = true := by
  obtain ⟨tr, htr⟩ := h
  have hi := inv_reachable false e s tr htr
  rcases s with ⟨m, w, pd, c, p⟩
  cases i
  · rcases hd with hm | hm | hm <;> simp only at hm <;> subst hm <;> simp [inv] at hi
  · rfl

/-- Once the caller's context is done while the script runs, the interrupt is on its way: in every
    reachable state with the program still running, some internal step is enabled that leads towards
    the stop (the watcher wakes, delivers, the program stops) — the execution cannot hang. -/
theorem running_after_done_progresses (t e : Bool) (s : St) (h : Reachable t e s)
    (hr : s.main = .running) (hp : s.parentDone = true) :
    enabled t s .wake = true ∨ enabled t s .interrupt = true ∨ enabled t s .stop = true := by
  obtain ⟨tr, htr⟩ := h
  have hi := inv_reachable t e s tr htr
  rcases s with ⟨m, w, pd, c, p⟩
  simp only at hr hp
  subst hr hp
  cases w <;> cases c <;> cases p <;> cases t <;>
    first
    | (exact absurd hi (by decide))
    | decide

/-- Nothing blocks before the return either: a reachable state is quiescent only when `Exec` has
    returned and the watcher is gone, or when a terminating-or-not script is still running with the
    caller's context alive (it is then the script's own time). -/
theorem quiescent_means_done_or_waiting_for_script (t e : Bool) (s : St) (h : Reachable t e s)
    (hq : quiescent t s = true) :
    (∃ i, s.main = .done i ∧ s.watch = .gone) ∨ (s.main = .running ∧ s.parentDone = false ∧ t = false) := by
  obtain ⟨tr, htr⟩ := h
  have hi := inv_reachable t e s tr htr
  rcases s with ⟨m, w, pd, c, p⟩
  rcases m with _ | (_ | _) | (_ | _) | (_ | _) <;> cases w <;> cases pd <;> cases c <;> cases p <;>
    cases t <;>
    first
    | (exact absurd hi (by decide))
    | (exact absurd hq (by decide))
    | (exact Or.inl ⟨_, rfl, rfl⟩)
    | (exact Or.inr ⟨rfl, rfl, rfl⟩)

/-- A script that finished by itself is not reported as interrupted even if the watcher fires later. -/
theorem finished_is_not_interrupted (t e : Bool) (s s' : St) (h : Reachable t e s)
    (hf : step t s .finish = some s') (tr : List Act) (s'' : St) (hr : run t s' tr = some s'') (i : Bool)
    (hd : s''.main = .done i) : i = false := by
  have _ := h   -- reachability of `s` is not needed
  have hc : cleanMain s' = true := by
    simp only [Watcher.step] at hf
    split at hf
    · simp only [Option.some.injEq] at hf
      subst hf
      rfl
    · exact absurd hf (by simp)
  have hc' := cleanMain_run t tr s' s'' hc hr
  cases i
  · rfl
  · simp [cleanMain, hd] at hc'

/-- The timeout is an action error like any other: the step routes it through the error settings
    (C04's `step_error_*` and C07's `action_error_*` theorems apply verbatim to an action whose
    execution returns the error `RuntimeError: timeout`). -/
theorem timeout_is_an_action_error (s : Spec) (st : State) (pending : Option V) (n : Node) (a : ActionF)
    (hc : s.compiled = true) (hn : findNode st.node s.nodes = some n) (ha : n.action = some a)
    (hm : ∀ br, n.branches = some br → br.type ≠ "message")
    (he : (execWrap a st.bs).err = some "RuntimeError: timeout") (hb : s.actionErrorBranches = false)
    (ht : s.actionErrorNode ≠ "") :
    ∃ sd, (step s st pending).stride = some sd ∧
      sd.to = some { node := s.actionErrorNode,
                     bs := some (insertB "error" (.str "RuntimeError: timeout")
                              (insertB "actionError" (.str "RuntimeError: timeout") (copyB st.bs))) } := by
  rw [step_action_err_node s st pending n a _ hc hn ha hm he hb ht]
  exact ⟨_, rfl, rfl⟩

end Sheens.C11
