import Sheens.ES

/-! Property C11 — theorems (in progress). -/
