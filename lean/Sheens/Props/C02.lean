import Sheens.MatchSpec

/-! Property C02 — theorems (in progress). -/
