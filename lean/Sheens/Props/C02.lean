import Sheens.MatchSpecC
import Sheens.Proofs.All
import Sheens.Props.MatchTotal
import Sheens.Proofs.CompleteAll

/-!
# Property C02 — completeness of the pattern matcher

If an assignment `σ` extending the given bindings embeds the pattern into the message (`Emb`), then
matching succeeds and returns a binding set `r ⊆ σ` that binds every non-optional variable of the
pattern (hence agrees with `σ` on them): the assignment is among the results.  Extra keys and extra
array elements of the message never prevent a match (they are simply not mentioned by `Emb`).

Side conditions of the property's quantifier, as explicit predicates:
`setLike f` (arrays are sets: no duplicate scalar members), `RepeatScalar` (repeated or pre-bound
variables take scalar values), `OptOnce` (optional variables occur once, not pre-bound),
`IneqPrebound` (inequality variables are pre-bound), `good` (no string of the message or of a bound
value begins with '?').  "A value planted under an array variable differs from that array's
constant members" is built into `Emb.arr`: the variable takes a *left-over* element.

## The statement as first written is false

`match_complete_full` (all of the above, nothing else) has a counter-example
(`match_complete_full_false`): `Matcher.inequal` tests the relation *before* it looks at the
plain-named counterpart, whereas `ineqActive` (hence `VarAt`) switches the inequality reading off as
soon as the counterpart is assigned a non-number.  With `p = "?<x"`, message `5` and
`bs₀ = σ = {"?<x": 5, "?x": "s"}` the spec reads `?<x` as an ordinary variable (`σ("?<x") = 5`, an
embedding), the matcher evaluates `5 < 5` and returns no result.  (Variant: `p = "?<=x"`,
`bs₀ = {"?<=x": 5}`, `σ = bs₀ + {"?x": "s"}`: the relation holds, the matcher binds `?x := 5` and its
only result is not `⊆ σ`.)

`match_complete_partial` is the theorem with the one extra hypothesis `IneqBaseNum`: the counterpart
of a numerically pre-bound inequality variable of the pattern is, if `σ` assigns it at all, a number.
-/

namespace Sheens.C02

/-- the statement as first written (refuted below) -/
def match_complete_full : Prop :=
  ∀ (p f : V) (bs₀ σ : Bs),
    p.plainPat = true → f.good = true → setLike f = true →
    GoodBs bs₀ → GoodBs σ → Extends bs₀ σ → IneqPrebound p bs₀ →
    RepeatScalar p bs₀ σ → OptOnce p bs₀ →
    Emb bs₀ σ p f →
    ∃ n rs, matchF n p f bs₀ = .ok rs ∧ ∃ r ∈ rs, Extends r σ

/-- the plain-named counterpart of a numerically pre-bound inequality variable of the pattern is,
    if `σ` assigns it at all, numeric -/
def IneqBaseNum (p : V) (bs₀ σ : Bs) : Prop :=
  ∀ v ∈ varsOf p, ∀ op base bv c, ineqOf v = some (op, base) → lookup v bs₀ = some bv →
    (asNum bv).isSome = true → lookup base σ = some c → (asNum c).isSome = true

/-- Completeness of the matcher (with `IneqBaseNum`). -/
theorem match_complete_partial (p f : V) (bs₀ σ : Bs)
    (hp : p.plainPat = true) (hf : f.good = true) (hs : setLike f = true)
    (hb : GoodBs bs₀) (hσ : GoodBs σ) (hext : Extends bs₀ σ) (hi : IneqPrebound p bs₀)
    (hrep : RepeatScalar p bs₀ σ) (_hopt : OptOnce p bs₀) (hnum : IneqBaseNum p bs₀ σ)
    (hemb : Emb bs₀ σ p f) :
    ∃ n rs, matchF n p f bs₀ = .ok rs ∧ ∃ r ∈ rs, Extends r σ := by
  obtain ⟨n, rs, h, r, hr, hres⟩ :=
    Sheens.Complete.complete_gen p f bs₀ σ hp hf hs hb hσ hext hi hrep hnum hemb
  exact ⟨n, rs, h, r, hr, hres.inv.sub⟩

/-- the returned set binds every non-optional, non-anonymous variable of the pattern (as `σ` does),
    and extends the given bindings -/
theorem match_complete_binds (p f : V) (bs₀ σ : Bs)
    (hp : p.plainPat = true) (hf : f.good = true) (hs : setLike f = true)
    (hb : GoodBs bs₀) (hσ : GoodBs σ) (hext : Extends bs₀ σ) (hi : IneqPrebound p bs₀)
    (hrep : RepeatScalar p bs₀ σ) (_hopt : OptOnce p bs₀) (hnum : IneqBaseNum p bs₀ σ)
    (hemb : Emb bs₀ σ p f) :
    ∃ n rs, matchF n p f bs₀ = .ok rs ∧ ∃ r ∈ rs, Extends r σ ∧ Extends bs₀ r ∧
      ∀ v ∈ varsOf p, isOptVar (.str v) = false → isAnon v = false → lookup v r = lookup v σ := by
  obtain ⟨n, rs, h, r, hr, hres⟩ :=
    Sheens.Complete.complete_gen p f bs₀ σ hp hf hs hb hσ hext hi hrep hnum hemb
  refine ⟨n, rs, h, r, hr, hres.inv.sub, hres.ext, ?_⟩
  intro v hv ho ha
  cases hl : lookup v r with
  | none => exact absurd hl (hres.binds v hv ho ha)
  | some x => exact (hres.inv.sub v x hl).symm

/-! ## the counter-example to `match_complete_full` -/

def cexP : V := .str "?<x"
def cexF : V := .num 5
def cexBs : Bs := [("?<x", .num 5), ("?x", .str "s")]

theorem cex_run : matchF 20 cexP cexF cexBs = .ok [] := rfl

theorem cex_none (n : Nat) (rs : List Bs) (h : matchF n cexP cexF cexBs = .ok rs) : rs = [] := by
  rcases Nat.le_total n 20 with hle | hle
  · have := Sheens.MatchTotal.matchF_mono_le n 20 _ _ _ _ hle h (by simp)
    rw [cex_run] at this
    cases this; rfl
  · have := Sheens.MatchTotal.matchF_mono_le 20 n _ _ _ _ hle cex_run (by simp)
    rw [this] at h
    cases h; rfl

/-- `σ = bs₀` reads `?<x` as an ordinary variable: its counterpart `?x` is not a number -/
theorem cex_emb : Emb cexBs cexBs cexP cexF :=
  Emb.var (by decide) (Or.inr (Or.inl ⟨by decide, by decide, rfl⟩))

theorem cex_rep : RepeatScalar cexP cexBs cexBs := by
  intro v x hl _
  unfold cexBs at hl
  simp only [lookup] at hl
  split at hl
  · cases hl; rfl
  · split at hl
    · cases hl; rfl
    · cases hl

theorem cex_opt : OptOnce cexP cexBs := by
  intro v hv ho
  have : varsOf cexP = ["?<x"] := by decide
  rw [this] at hv
  have hv' : v = "?<x" := by simpa using hv
  subst hv'
  exact absurd ho (by decide)

theorem match_complete_full_false : ¬ match_complete_full := by
  intro H
  obtain ⟨n, rs, h, r, hr, _⟩ := H cexP cexF cexBs cexBs (by decide) (by decide) (by decide)
    (by decide) (by decide) (Extends.refl _) (by decide) cex_rep cex_opt cex_emb
  rw [cex_none n rs h] at hr
  cases hr

/-- the variant: the relation holds, the counterpart gets bound to the message value -/
example : matchF 20 (.str "?<=x") (.num 5) [("?<=x", .num 5)] =
    .ok [[("?x", .num 5), ("?<=x", .num 5)]] := rfl

/-! ## Non-vacuity: concrete embeddings -/

/-- every value of `σ` scalar ⇒ `RepeatScalar` -/
theorem repeatScalar_of_scalars {p : V} {bs₀ σ : Bs} (h : ∀ kv ∈ σ, isScalarV kv.2 = true) :
    RepeatScalar p bs₀ σ :=
  fun v x hl _ => h (v, x) (lookup_mem hl)

/-- no optional variable ⇒ `OptOnce` -/
theorem optOnce_of_noOpt {p : V} {bs₀ : Bs} (h : ∀ v ∈ varsOf p, isOptVar (.str v) = false) :
    OptOnce p bs₀ := by
  intro v hv ho
  rw [h v hv] at ho
  cases ho

/-- no inequality variable ⇒ `IneqBaseNum` -/
theorem ineqBaseNum_of_noIneq {p : V} {bs₀ σ : Bs} (h : ∀ v ∈ varsOf p, ineqOf v = none) :
    IneqBaseNum p bs₀ σ := by
  intro v hv op base bv c hio
  rw [h v hv] at hio
  cases hio

/-- nested array with extra elements: `[[?x, 2], "a"]` in `["a", [3], [1, 2], "b"]`, `?x ↦ 1` -/
def ex1P : V := .arr [.arr [.str "?x", .num 2], .str "a"]
def ex1F : V := .arr [.str "a", .arr [.num 3], .arr [.num 1, .num 2], .str "b"]
def ex1S : Bs := [("?x", .num 1)]

theorem ex1_emb : Emb [] ex1S ex1P ex1F := by
  refine Emb.arr (vo := none) (xs := [.arr [.str "?x", .num 2], .str "a"])
    (L := [.arr [.num 3], .str "b"]) rfl ?_ trivial
  refine ArrEmbX.cons (f := .arr [.num 1, .num 2]) (Pick.there (Pick.there Pick.here)) ?_ ?_
  · -- the inner array: `2` is matched by `2`, the variable takes the left-over `1`
    refine Emb.arr (vo := some "?x") (xs := [.num 2]) (L := [.num 1]) rfl ?_ ?_
    · exact ArrEmbX.cons (Pick.there Pick.here) (Emb.scalar rfl rfl) ArrEmbX.nil
    · exact Or.inl ⟨.num 1, List.mem_cons_self, Or.inr (Or.inl ⟨by decide, by decide, rfl⟩)⟩
  · exact ArrEmbX.cons Pick.here (Emb.scalar (by decide) rfl) ArrEmbX.nil

example : ∃ n rs, matchF n ex1P ex1F [] = .ok rs ∧ ∃ r ∈ rs, Extends r ex1S :=
  match_complete_partial ex1P ex1F [] ex1S (by decide) (by decide) (by decide) (by decide)
    (by decide) (fun _ _ h => nomatch h) (by decide)
    (repeatScalar_of_scalars (by decide)) (optOnce_of_noOpt (by decide))
    (ineqBaseNum_of_noIneq (by decide)) ex1_emb

/-- property variable with a structured value and an extra key:
    `{"?k": {"n": "?v"}}` in `{"a": 1, "b": {"n": 2, "m": 3}}`, `?k ↦ "b"`, `?v ↦ 2` -/
def ex2P : V := .obj [("?k", .obj [("n", .str "?v")])]
def ex2F : V := .obj [("a", .num 1), ("b", .obj [("n", .num 2), ("m", .num 3)])]
def ex2S : Bs := [("?k", .str "b"), ("?v", .num 2)]

theorem ex2_emb : Emb [] ex2S ex2P ex2F := by
  refine Emb.objProp (fk := "b") (fv := .obj [("n", .num 2), ("m", .num 3)]) (by decide)
    (List.mem_cons_of_mem _ List.mem_cons_self)
    (Or.inr (Or.inl ⟨by decide, by decide, rfl⟩)) ?_
  refine Emb.obj (by simp) ?_
  exact ObjEmb.present (fv := .num 2) (by decide) rfl
    (Emb.var (by decide) (Or.inr (Or.inl ⟨by decide, by decide, rfl⟩))) ObjEmb.nil

example : ∃ n rs, matchF n ex2P ex2F [] = .ok rs ∧ ∃ r ∈ rs, Extends r ex2S :=
  match_complete_partial ex2P ex2F [] ex2S (by decide) (by decide) (by decide) (by decide)
    (by decide) (fun _ _ h => nomatch h) (by decide)
    (repeatScalar_of_scalars (by decide)) (optOnce_of_noOpt (by decide))
    (ineqBaseNum_of_noIneq (by decide)) ex2_emb

/-- an inequality variable used as documented (`IneqBaseNum` holds non-trivially):
    `[?<n]` pre-bound to 10 in `[3, 12]`; the counterpart `?n ↦ 3` -/
def ex3P : V := .arr [.str "?<n"]
def ex3F : V := .arr [.num 3, .num 12]
def ex3B : Bs := [("?<n", .num 10)]
def ex3S : Bs := [("?<n", .num 10), ("?n", .num 3)]

theorem ex3_emb : Emb ex3B ex3S ex3P ex3F := by
  refine Emb.arr (vo := some "?<n") (xs := []) (L := [.num 3, .num 12]) rfl ArrEmbX.nil ?_
  refine Or.inl ⟨.num 3, List.mem_cons_self, Or.inr (Or.inr ?_)⟩
  exact ⟨.lt, "?n", .num 10, 10, 3, .num 3, by decide, rfl, rfl, rfl, by decide, rfl, rfl⟩

theorem ex3_num : IneqBaseNum ex3P ex3B ex3S := by
  intro v hv op base bv c hio _ _ hc
  have hvars : varsOf ex3P = ["?<n"] := by decide
  rw [hvars] at hv
  have hv' : v = "?<n" := by simpa using hv
  subst hv'
  have : ineqOf "?<n" = some (.lt, "?n") := by decide
  rw [this] at hio
  cases hio
  have hc' : lookup "?n" ex3S = some (.num 3) := rfl
  rw [hc'] at hc
  cases hc
  rfl

example : ∃ n rs, matchF n ex3P ex3F ex3B = .ok rs ∧ ∃ r ∈ rs, Extends r ex3S :=
  match_complete_partial ex3P ex3F ex3B ex3S (by decide) (by decide) (by decide) (by decide)
    (by decide) (by
      intro k v h
      unfold ex3B at h
      simp only [lookup] at h
      split at h
      · next hk => cases h; subst hk; rfl
      · cases h) (by decide)
    (repeatScalar_of_scalars (by decide)) (optOnce_of_noOpt (by decide)) ex3_num ex3_emb

end Sheens.C02

#print axioms Sheens.C02.match_complete_partial
#print axioms Sheens.C02.match_complete_binds
#print axioms Sheens.C02.match_complete_full_false
