import Sheens.Own
import Sheens.Proofs.Permanent
import Sheens.Proofs.OwnStepH
import Sheens.Proofs.OwnWalk

/-!
# Property C06, ownership layer — a step never modifies what it is given, returns no shared map

Theorems about `Own.stepH` (`Sheens/Own.lean`: `Spec.Step` over a heap of bindings maps):

* `stepH_frame`: every map that existed before the call — the given state's bindings, the maps of
  other machines, anything — has the same content afterwards, whatever the actions and guards do
  within their contract (`Own.Respects`), on every path (failing action, rejecting guard, error
  node, no branch followed);
* `stepH_fresh`: the bindings of the returned `From` and `To` states are maps that did not exist
  before the call, and they are two different maps;
* `stepH_refines`: read back through the heap, the result is exactly the pure model's `step` — the
  function all other theorems (C04–C08, C18) are about.

`Clean` (no duplicate keys in any cell) is the list model's rendering of "a Go map has each key
once"; see C18 for why the permanent write-back needs it.
-/

namespace Sheens.C06
open Own

/-! `Clean` (every cell holds a map without duplicate keys), `KeepsClean` (actions and guards hand
back clean heaps), `SameBelow` (every map that existed in `h` has the same content in `h'`) and
`StateOk` (the given state's map, if any, exists) are defined in `Sheens/Proofs/OwnHeap.lean`, in this
namespace; the proofs are `stepH_spec'` (`Sheens/Proofs/OwnStepH.lean`) read four ways. -/

theorem stepH_frame (s : SpecH) (hs : s.Good) (hk : KeepsClean s) (st : StateH) (pending : Option V)
    (h : Heap) (hwf : h.WF) (hc : Clean h) (hst : StateOk h st) :
    (stepH s st pending h).1.WF ∧ Clean (stepH s st pending h).1 ∧
    h.next ≤ (stepH s st pending h).1.next ∧ SameBelow h (stepH s st pending h).1 := by
  obtain ⟨g, _, _⟩ := stepH_spec' s hs hk st pending ⟨hwf, hc⟩ hst
  exact ⟨g.inv.1, g.inv.2, g.mono, g.same⟩

/-- in particular the caller's own state reads as before -/
theorem stepH_leaves_given_state (s : SpecH) (hs : s.Good) (hk : KeepsClean s) (st : StateH)
    (pending : Option V) (h : Heap) (hwf : h.WF) (hc : Clean h) (hst : StateOk h st) :
    content (stepH s st pending h).1 st.bs = content h st.bs := by
  obtain ⟨g, _, _⟩ := stepH_spec' s hs hk st pending ⟨hwf, hc⟩ hst
  exact g.content hst

theorem stepH_fresh (s : SpecH) (hs : s.Good) (hk : KeepsClean s) (st : StateH) (pending : Option V)
    (h : Heap) (hwf : h.WF) (hc : Clean h) (hst : StateOk h st) (sd : StrideH)
    (hsd : (stepH s st pending h).2.stride = some sd) :
    (∃ a, sd.frm.bs = some a ∧ h.next ≤ a ∧ ((stepH s st pending h).1.get a).isSome) ∧
    (∀ t, sd.to = some t →
       ∃ b, t.bs = some b ∧ h.next ≤ b ∧ sd.frm.bs ≠ some b ∧ ((stepH s st pending h).1.get b).isSome) := by
  obtain ⟨_, _, hf⟩ := stepH_spec' s hs hk st pending ⟨hwf, hc⟩ hst
  obtain ⟨h1, h2, h3⟩ := hf sd hsd
  refine ⟨⟨h.next, h1, Nat.le_refl _, h2.2⟩, ?_⟩
  intro t ht
  obtain ⟨b, hb1, hb2, hb3⟩ := h3 t ht
  refine ⟨b, hb1, Nat.le_of_lt hb2, ?_, hb3.2⟩
  rw [h1]
  intro heq
  cases heq
  exact Nat.lt_irrefl _ hb2

theorem stepH_refines (s : SpecH) (hs : s.Good) (hk : KeepsClean s) (st : StateH) (pending : Option V)
    (h : Heap) (hwf : h.WF) (hc : Clean h) (hst : StateOk h st) :
    (stepH s st pending h).2.abs (stepH s st pending h).1 = step s.abs (st.abs h) pending :=
  (stepH_spec' s hs hk st pending ⟨hwf, hc⟩ hst).2.1

/-! ## The contract is satisfiable, including by an action that hands back the very map it got -/

/-- an interpreter-style action: computes on the content, hands back a new map -/
def freshAct (f : ActionF) : Act :=
  { run := fun h arg =>
      let out := f (content h arg)
      match out.exe with
      | none => (h, { exe := none, err := out.err })
      | some (none, em) => (h, { exe := some (none, em), err := out.err })
      | some (some b, em) => let (h1, a) := h.alloc b; (h1, { exe := some (some a, em), err := out.err })
    pure := f }

theorem freshAct_respects (f : ActionF) : Respects (freshAct f) := by
  refine ⟨?_, ?_, ?_, ?_, ?_⟩
  · intro h arg hwf _
    simp only [freshAct]
    rcases (f (content h arg)).exe with _ | ⟨_ | b, em⟩
    · exact hwf
    · exact hwf
    · intro c hc
      rcases List.mem_cons.mp hc with hc | hc
      · subst hc; exact Nat.lt_succ_self _
      · exact Nat.lt_succ_of_lt (hwf c hc)
  · intro h arg
    simp only [freshAct]
    rcases (f (content h arg)).exe with _ | ⟨_ | b, em⟩
    · exact Nat.le_refl _
    · exact Nat.le_refl _
    · exact Nat.le_succ _
  · intro h arg x hx
    simp only [freshAct]
    rcases (f (content h arg)).exe with _ | ⟨_ | b, em⟩
    · rfl
    · rfl
    · exact get_alloc_ne h b x (Nat.ne_of_lt hx)
  · intro h arg r em _ _
    simp only [freshAct]
    rcases (f (content h arg)).exe with _ | ⟨_ | b, em'⟩
    · intro hx; cases hx
    · intro hx; cases hx
    · intro hx
      cases hx
      refine ⟨Or.inr (Nat.le_refl _), Nat.lt_succ_self _, ?_⟩
      show ((h.alloc b).1.get h.next).isSome = true
      rw [get_alloc_self]
      rfl
  · intro h arg _ _
    simp only [freshAct]
    generalize f (content h arg) = out
    obtain ⟨exe, err⟩ := out
    rcases exe with _ | ⟨_ | b, em⟩
    · rfl
    · rfl
    · simp only [absOut, Option.map_some, content_some]
      rw [alloc_addr, get_alloc_self]

/-- a native action that emits and hands back the map it was given, untouched -/
def sameMapAct (em : List V) : Act :=
  { run := fun h arg => (h, { exe := some (arg, em), err := none })
    pure := fun bs => { exe := some (bs, em), err := none } }

theorem sameMapAct_respects (em : List V) : Respects (sameMapAct em) := by
  refine ⟨fun h arg hwf _ => hwf, fun h arg => Nat.le_refl _, fun h arg x _ => rfl, ?_, ?_⟩
  · intro h arg r em' _ harg hx
    simp only [sameMapAct, Option.some.injEq, Prod.mk.injEq] at hx
    obtain ⟨hx, _⟩ := hx
    exact ⟨Or.inl hx.symm, (harg r hx).1, (harg r hx).2⟩
  · intro h arg _ _
    rfl

/-- Why `Respects.result` asks that the given map exists (not only that its address was handed out):
    as first stated — with the hypothesis `∀ x, arg = some x → x < h.next` only — the field fails for
    `sameMapAct` on a heap whose address 0 was handed out but holds no cell. -/
theorem sameMapAct_result_needs_existing_arg (em : List V) :
    ¬ (∀ (h : Heap) (arg : Option Addr) (r : Addr) (em' : List V), h.WF →
        (∀ x, arg = some x → x < h.next) →
        ((sameMapAct em).run h arg).2.exe = some (some r, em') →
        (some r = arg ∨ h.next ≤ r) ∧ r < ((sameMapAct em).run h arg).1.next ∧
          (((sameMapAct em).run h arg).1.get r).isSome) := by
  intro hall
  have := hall { cells := [], next := 1 } (some 0) 0 em (fun c hc => by cases hc)
    (fun x hx => by cases hx; exact Nat.lt_succ_self _) rfl
  have h3 := this.2.2
  simp [sameMapAct, Heap.get] at h3


/-! ## The same for a whole walk -/

theorem walkH_frame (s : SpecH) (hs : s.Good) (hk : KeepsClean s) (st : StateH) (msgs : List V)
    (limit : Option Int) (bp : State → Bool) (h : Heap) (hwf : h.WF) (hc : Clean h) (hst : StateOk h st) :
    (walkH s st msgs limit bp h).1.WF ∧ Clean (walkH s st msgs limit bp h).1 ∧
    h.next ≤ (walkH s st msgs limit bp h).1.next ∧ SameBelow h (walkH s st msgs limit bp h).1 := by
  obtain ⟨g, _, _⟩ := walkLoopH_spec s hs hk bp h.next
    (match limit with | none => defaultLimit | some l => l).toNat st msgs [] h ⟨hwf, hc⟩ hst
    (Nat.le_refl _) (fun _ hx => by cases hx)
  exact ⟨g.inv.1, g.inv.2, g.mono, g.same⟩

/-- every state a walk reports holds a map that did not exist before the call -/
theorem walkH_fresh (s : SpecH) (hs : s.Good) (hk : KeepsClean s) (st : StateH) (msgs : List V)
    (limit : Option Int) (bp : State → Bool) (h : Heap) (hwf : h.WF) (hc : Clean h) (hst : StateOk h st) :
    ∀ sd ∈ (walkH s st msgs limit bp h).2.strides,
      (∃ a, sd.frm.bs = some a ∧ h.next ≤ a ∧ ((walkH s st msgs limit bp h).1.get a).isSome) ∧
      (∀ t, sd.to = some t →
        ∃ b, t.bs = some b ∧ h.next ≤ b ∧ sd.frm.bs ≠ some b ∧ ((walkH s st msgs limit bp h).1.get b).isSome) := by
  obtain ⟨_, hall, _⟩ := walkLoopH_spec s hs hk bp h.next
    (match limit with | none => defaultLimit | some l => l).toNat st msgs [] h ⟨hwf, hc⟩ hst
    (Nat.le_refl _) (fun _ hx => by cases hx)
  intro sd hsd
  obtain ⟨⟨a, ha1, ha2, ha3⟩, hto⟩ := hall sd hsd
  refine ⟨⟨a, ha1, ha2, ha3.2⟩, ?_⟩
  intro t ht
  obtain ⟨b, hb1, hb2, hb3, hb4⟩ := hto t ht
  exact ⟨b, hb1, hb2, hb3, hb4.2⟩

/-- read back through the final heap, the walk is the pure model's `walk` -/
theorem walkH_refines (s : SpecH) (hs : s.Good) (hk : KeepsClean s) (st : StateH) (msgs : List V)
    (limit : Option Int) (bp : State → Bool) (h : Heap) (hwf : h.WF) (hc : Clean h) (hst : StateOk h st) :
    (walkH s st msgs limit bp h).2.abs (walkH s st msgs limit bp h).1 =
      walk s.abs (st.abs h) msgs limit bp := by
  obtain ⟨_, _, hab⟩ := walkLoopH_spec s hs hk bp h.next
    (match limit with | none => defaultLimit | some l => l).toNat st msgs [] h ⟨hwf, hc⟩ hst
    (Nat.le_refl _) (fun _ hx => by cases hx)
  exact hab

end Sheens.C06
