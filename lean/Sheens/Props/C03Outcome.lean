import Sheens.Props.C03Linear
import Sheens.Proofs.CompleteNoErr
import Sheens.Proofs.KeyPermOK

/-!
# Property C03 — on valid linear plain patterns the whole outcome is order independent

`order_independent_linear` speaks about the returned assignments.  The other half of "same
success-or-error outcome" is that no order of the keys produces an error: a pattern whose arrays
hold at most one variable each and whose maps do not mix a property variable with other keys
(`Complete.patOK` — exactly the patterns `getVariable` and the property-variable check accept)
never errs, and `patOK` does not depend on the order of the keys.  (Known finding KF-C03-2 is about
patterns that are *not* `patOK`.)
-/

namespace Sheens.C03

open Sheens.C02 Sheens.Complete Sheens.KeyPermLemmas

/-- a valid plain pattern never makes the matcher err, whatever the message -/
theorem valid_pattern_never_errs (n : Nat) (p f : V) (e : MatchErr)
    (hp : p.plainPat = true) (hok : patOK p = true) (hf : f.good = true) (hv : PlainVars p) :
    matchF n p f [] ≠ .err e :=
  noerr_plain n p f e hp hok hf hv

/-- validity does not depend on the order of the keys -/
theorem patOK_keyperm {p p' : V} (hk : KeyPerm p p') (hok : patOK p = true) : patOK p' = true :=
  (KeyPerm.rec
    (motive_1 := fun a b _ => OKInv a b)
    (motive_2 := fun xs ys _ => RelL OKInv xs ys)
    (motive_3 := fun xs ys _ => RelK OKInv xs ys)
    (fun v => OKInv.refl v)
    (fun _ ih => OKInv.arr ih)
    (fun _ hp ih => OKInv.obj ih hp)
    RelL.nil
    (fun _ _ ih1 ih2 => RelL.cons ih1 ih2)
    RelK.nil
    (fun _ _ ih1 ih2 => RelK.cons ih1 ih2)
    hk : OKInv p p').ok hok

/-- hence: for every re-ordering of the keys, neither order errs and both return the same
    assignments — the same outcome -/
theorem order_independent_outcome (p p' f : V) (σ : Bs)
    (hk : KeyPerm p p')
    (hp : p.plainPat = true) (hok : patOK p = true) (hf : f.good = true) (hs : setLike f = true)
    (hl : Linear p) (hv : PlainVars p) (hσ : GoodBs σ)
    (hdom : ∀ k, lookup k σ ≠ none → k ∈ varsOf p ∧ isAnon k = false) :
    (∀ n e, matchF n p f [] ≠ .err e) ∧ (∀ n e, matchF n p' f [] ≠ .err e) ∧
    ((∃ n rs, matchF n p f [] = .ok rs ∧ ∃ r ∈ rs, ∀ k, lookup k r = lookup k σ) ↔
     (∃ n rs, matchF n p' f [] = .ok rs ∧ ∃ r ∈ rs, ∀ k, lookup k r = lookup k σ)) := by
  have hi := hk.inv [] σ
  exact ⟨fun n e => valid_pattern_never_errs n p f e hp hok hf hv,
    fun n e => valid_pattern_never_errs n p' f e (hi.plain hp) (patOK_keyperm hk hok) hf
      (hi.plainVars hv),
    order_independent_linear p p' f σ hk hp hf hs hl hv hσ hdom⟩

end Sheens.C03

#print axioms Sheens.C03.valid_pattern_never_errs
#print axioms Sheens.C03.patOK_keyperm
#print axioms Sheens.C03.order_independent_outcome
