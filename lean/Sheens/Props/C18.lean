import Sheens.ES

/-! Property C18 — theorems (in progress). -/
