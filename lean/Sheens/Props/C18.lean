import Sheens.ES
import Sheens.Proofs.Permanent

/-!
# Property C18 — permanent bindings

For all bindings and all action/guard *functions* (whatever they delete, overwrite or return).

Bindings are association lists in the model (first hit wins on `lookup`, while `restore` writes the
permanent pairs back one after the other, so the last one wins).  On lists with *duplicate keys* —
which a Go map cannot have — the two disagree and the statements as first written are false
(`permanent_preserved_full_false`, `permanent_after_step_full_false`,
`permanent_after_step_nodup_false` below, each from a concrete witness).  The theorems therefore
carry `NoDupKeys` hypotheses (`NoDupKeys` is defined in `Sheens/Proofs/Permanent.lean`: the keys are
pairwise distinct): on the given bindings and, for a whole step, on the bindings the action returns
(an `ActionF` is an arbitrary function into association lists, so it could return duplicates too).
-/

namespace Sheens.C18

/-- the statement as first written (no duplicate-key hypothesis): false, see below -/
def permanent_preserved_full : Prop :=
  ∀ (a : ActionF) (bs b' : Bs) (em : List V) (k : String) (v : V),
    (execWrap a (some bs)).exe = some (some b', em) →
    isPermanent k = true → lookup k bs = some v → lookup k b' = some v

/-- After any action or guard that completes and returns bindings, every binding whose name ends
    in '!' that was present beforehand is present with its previous value.
    (`hnd`: the given bindings have no duplicate keys — always so for a Go map.) -/
theorem permanent_preserved (a : ActionF) (bs b' : Bs) (em : List V) (k : String) (v : V)
    (hnd : NoDupKeys bs)
    (hx : (execWrap a (some bs)).exe = some (some b', em))
    (hk : isPermanent k = true) (hv : lookup k bs = some v) :
    lookup k b' = some v := by
  exact execWrap_keeps hk ⟨hnd, hv⟩ hx

/-- witness: the bindings `[("k!", null), ("k!", true)]` and an action that returns `{}` -/
theorem permanent_preserved_full_false : ¬ permanent_preserved_full := by
  intro h
  have := h (fun _ => { exe := some (some [], []), err := none })
    [("k!", .null), ("k!", .bool true)] [("k!", .bool true)] [] "k!" .null rfl (by decide) rfl
  revert this
  simp [lookup]

/-- A failing action leaves them in place: the error bindings extend the given ones. -/
theorem permanent_after_action_error (bs : Bs) (e : String) (k : String) (v : V)
    (hk : isPermanent k = true) (hv : lookup k bs = some v) :
    lookup k (insertB "error" (.str e) (insertB "actionError" (.str e) bs)) = some v := by
  rw [lookup_insertB_ne _ _ (perm_ne_error hk), lookup_insertB_ne _ _ (perm_ne_actionError hk)]
  exact hv

/-- the statement as first written: false on duplicate keys, see below -/
def permanent_after_step_full : Prop :=
  ∀ (s : Spec) (st : State) (pending : Option V) (bs : Bs) (sd : Stride)
    (t : State) (k : String) (v : V),
    st.bs = some bs →
    (∀ n a, findNode st.node s.nodes = some n → n.action = some a →
        (execWrap a st.bs).err = none → ∃ b' em, (execWrap a st.bs).exe = some (some b', em)) →
    (step s st pending).stride = some sd → sd.to = some t →
    isPermanent k = true → lookup k bs = some v →
    ∃ tb, t.bs = some tb ∧ lookup k tb = some v

/-- the statement with `NoDupKeys` on the given bindings only: still false, because the action may
    return bindings with duplicate keys, which a following guard's `restore` then scrambles -/
def permanent_after_step_nodup : Prop :=
  ∀ (s : Spec) (st : State) (pending : Option V) (bs : Bs) (sd : Stride)
    (t : State) (k : String) (v : V),
    st.bs = some bs → NoDupKeys bs →
    (∀ n a, findNode st.node s.nodes = some n → n.action = some a →
        (execWrap a st.bs).err = none → ∃ b' em, (execWrap a st.bs).exe = some (some b', em)) →
    (step s st pending).stride = some sd → sd.to = some t →
    isPermanent k = true → lookup k bs = some v →
    ∃ tb, t.bs = some tb ∧ lookup k tb = some v

/-- One step: whenever the step ends in a state (success, action failure under every routing, the
    "followed no branch" transition), every permanent binding of the given state is there with the
    same value — provided the action, if any, returned bindings or failed (an action that completes
    with `null` is outside the property), and the pattern matcher and guards only extend or restore
    (guards are wrapped the same way).

    Extra hypotheses with respect to `permanent_after_step_full`: `hnd` (the given bindings have no
    duplicate keys) and, in `hnn`, `NoDupKeys b'` (neither have the bindings the action hands back;
    by `execWrap_nodup` it is enough that the raw action's bindings have none). -/
theorem permanent_after_step_partial (s : Spec) (st : State) (pending : Option V) (bs : Bs)
    (sd : Stride) (t : State) (k : String) (v : V)
    (hbs : st.bs = some bs) (hnd : NoDupKeys bs)
    (hnn : ∀ n a, findNode st.node s.nodes = some n → n.action = some a →
        (execWrap a st.bs).err = none →
          ∃ b' em, (execWrap a st.bs).exe = some (some b', em) ∧ NoDupKeys b')
    (hs : (step s st pending).stride = some sd) (ht : sd.to = some t)
    (hk : isPermanent k = true) (hv : lookup k bs = some v) :
    ∃ tb, t.bs = some tb ∧ lookup k tb = some v := by
  have hc : Keeps k v bs := ⟨hnd, hv⟩
  cases step_cases s st pending with
  | nostride h => rw [h] at hs; cases hs
  | noaction n hn ha h =>
    rw [h, stepRest_noaction _ _ _ _ _ ha, hbs] at hs
    cases hs
    simp only at ht
    cases hcons : (consider n.branches (some bs) pending).1 with
    | none => rw [hcons] at ht; cases ht
    | some t' =>
      rw [hcons] at ht
      cases ht
      obtain ⟨tb, h1, h2⟩ := consider_keeps hk hc hcons
      exact ⟨tb, by simp only [stateCopy, h1, copyB], h2⟩
  | ok n a hn ha hm he h =>
    obtain ⟨b', em, hx, hnd'⟩ := hnn n a hn ha he
    have hc' : Keeps k v b' := ⟨hnd', execWrap_keeps hk hc (by rw [← hbs]; exact hx)⟩
    rw [h, hx] at hs
    exact stepRest_action_keeps ha hm hk hc' hs ht
  | errBranches n a e hn ha hm he h =>
    rw [h, hbs] at hs
    exact stepRest_action_keeps ha hm hk (keeps_actErrBs hk hc e) hs ht
  | errNode n a e hn ha hm he h =>
    rw [h] at hs
    cases hs
    cases ht
    exact ⟨_, rfl, by rw [lookup_actErrBs hk, hbs]; exact hv⟩

/-- the property under its registered name (same statement as `permanent_after_step_partial`) -/
theorem permanent_after_step (s : Spec) (st : State) (pending : Option V) (bs : Bs) (sd : Stride)
    (t : State) (k : String) (v : V)
    (hbs : st.bs = some bs) (hnd : NoDupKeys bs)
    (hnn : ∀ n a, findNode st.node s.nodes = some n → n.action = some a →
        (execWrap a st.bs).err = none →
          ∃ b' em, (execWrap a st.bs).exe = some (some b', em) ∧ NoDupKeys b')
    (hs : (step s st pending).stride = some sd) (ht : sd.to = some t)
    (hk : isPermanent k = true) (hv : lookup k bs = some v) :
    ∃ tb, t.bs = some tb ∧ lookup k tb = some v :=
  permanent_after_step_partial s st pending bs sd t k v hbs hnd hnn hs ht hk hv

/-! ## the witnesses -/

/-- a guard that accepts and returns the bindings it was given -/
def idGuard : ActionF := fun bs => { exe := some (bs, []), err := none }

/-- bindings branching with one guarded branch (no pattern) to node `m`, optionally after an action -/
def cexSpec (a : Option ActionF) : Spec :=
  { name := "cex", compiled := true, actionErrorBranches := false, actionErrorNode := "",
    nodes := [("n", { action := a, hasSource := false,
                      branches := some { type := "bindings",
                                         branches := [{ pattern := none, guard := some idGuard,
                                                        target := "m" }] } })] }

/-- witness 1: duplicate keys in the given bindings; the guard's `restore` makes the last one win -/
theorem permanent_after_step_full_false : ¬ permanent_after_step_full := by
  intro h
  obtain ⟨tb, h1, h2⟩ := h (cexSpec none) { node := "n", bs := some [("k!", .null), ("k!", .bool true)] }
    none [("k!", .null), ("k!", .bool true)]
    { frm := { node := "n", bs := some [("k!", .null), ("k!", .bool true)] },
      to := some { node := "m", bs := some [("k!", .bool true), ("k!", .bool true)] },
      consumed := none, emitted := [] }
    { node := "m", bs := some [("k!", .bool true), ("k!", .bool true)] } "k!" .null
    rfl (by intro n a hn ha; cases hn; cases ha) rfl rfl (by decide) rfl
  cases h1
  revert h2
  simp [lookup]

/-- an action that returns bindings with a duplicate key -/
def dupAction : ActionF :=
  fun _ => { exe := some (some [("k!", .bool true), ("k!", .bool false)], []), err := none }

/-- witness 2: the given bindings `{"k!": null}` are duplicate-free, the action returns a duplicate
    key; `execWrap` restores the first occurrence, the guard's `execWrap` then writes both
    "permanent" pairs back and the last one wins -/
theorem permanent_after_step_nodup_false : ¬ permanent_after_step_nodup := by
  intro h
  obtain ⟨tb, h1, h2⟩ := h (cexSpec (some dupAction)) { node := "n", bs := some [("k!", .null)] }
    none [("k!", .null)]
    { frm := { node := "n", bs := some [("k!", .null)] },
      to := some { node := "m", bs := some [("k!", .bool false), ("k!", .bool false)] },
      consumed := none, emitted := [] }
    { node := "m", bs := some [("k!", .bool false), ("k!", .bool false)] } "k!" .null
    rfl (List.pairwise_singleton _ _)
    (by intro n a hn ha _; cases hn; cases ha; exact ⟨_, _, rfl⟩) rfl rfl (by decide) rfl
  cases h1
  revert h2
  simp [lookup]

end Sheens.C18
