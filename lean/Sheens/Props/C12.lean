import Sheens.ES

/-! Property C12 — theorems (in progress). -/
