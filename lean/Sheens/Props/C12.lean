import Sheens.Specter
import Sheens.Engine
import Sheens.Proofs.SpecterLemmas

/-!
# Property C12 — a compiled spec is shared immutable data; spec updates are atomic
(partial: the Go memory model and `sync/atomic` are trusted; the absence of write sites rooted in the
spec is re-checked from the source on every run by `FactsOK.engine_writes_only_locals` and
`FactsOK.matcher_writes_only_locals_and_bindings`)
-/

namespace Sheens.C12

open Specter

/-- Processing is a function of its arguments: a walk obtains exactly the result it would obtain
    alone, whatever else is being processed against the same (immutable) spec value. -/
theorem walk_deterministic (s : Spec) (st : State) (msgs : List V) (l : Option Int) (bp : State → Bool)
    (w₁ w₂ : Walked) (h₁ : walk s st msgs l bp = w₁) (h₂ : walk s st msgs l bp = w₂) : w₁ = w₂ := by
  exact h₁ ▸ h₂

/-- Every processing call observes one complete version — one that was current at some moment
    between its start and its return: the old one or a new one. -/
theorem loaded_was_current (v0 : Nat) (c : Nat) (h : List Ev) (hw : wellFormed c h) :
    ∃ v, loaded v0 c h = some v ∧ v ∈ currentDuring v0 c h false := by
  obtain ⟨a, b, d, rfl, ha, hb, _⟩ := hw
  refine ⟨current (current v0 a) b, ?_, ?_⟩
  · exact loaded_decomp v0 c a b d (fun e he => (ha e he).2.1) (fun e he => (hb e he).2.1)
  · rw [currentDuring_decomp v0 c a b d (fun e he => ⟨(ha e he).1, (ha e he).2.2⟩)]
    rcases current_mem_inside c (.load c :: d) b (current v0 a) (fun e he => (hb e he).2.2) with heq | hmem
    · rw [heq]; exact List.mem_cons_self
    · exact List.mem_cons_of_mem _ hmem

/-- Without a concurrent swap a call sees the version current when it started. -/
theorem loaded_without_swap (v0 : Nat) (c : Nat) (a b d : List Ev)
    (hb : ∀ e ∈ b, ∀ v, e ≠ .write v) (hb2 : ∀ e ∈ b, e ≠ .load c) (ha : ∀ e ∈ a, e ≠ .load c) :
    loaded v0 c (a ++ [.begin_ c] ++ b ++ [.load c] ++ d) = some (current v0 a) := by
  rw [loaded_decomp v0 c a b d ha hb2, current_no_write b _ hb]

end Sheens.C12
