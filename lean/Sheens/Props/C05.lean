import Sheens.ES
import Sheens.Proofs.WalkSplit

/-!
# Property C05 — walk accounting

Over the model `walk`/`walkLoop`/`walkStride` of `Spec.Walk`, for all specs (arbitrary action and
guard functions, which are deterministic because they are functions), start states, message
sequences, limits and breakpoint predicates.
-/

namespace Sheens.C05

def NonNull (msgs : List V) : Prop := ∀ m ∈ msgs, m ≠ V.null

theorem walk_eq_W (s : Spec) (st : State) (msgs : List V) (limit : Option Int) (bp : State → Bool) :
    walk s st msgs limit bp =
      W s bp (match limit with | none => defaultLimit | some l => l).toNat st msgs := rfl

theorem W_bounded (s : Spec) (bp : State → Bool) :
    ∀ i st p, (W s bp i st p).strides.length ≤ i := by
  apply W_ind s bp (P := fun i _ _ w => w.strides.length ≤ i)
  · intro st p; exact Nat.le_refl _
  · intro i st p _; exact Nat.zero_le _
  · intro i st p _ _ _; simp
  · intro i st p w _ _ _ _ ih; simp only [Walked.cons, List.length_cons]; omega
  · intro i st p t w _ _ ih; simp only [Walked.cons, List.length_cons]; omega

/-- No more steps than the configured limit. -/
theorem walk_bounded (s : Spec) (st : State) (msgs : List V) (l : Nat) (bp : State → Bool) :
    (walk s st msgs (some (l : Int)) bp).strides.length ≤ l := by
  rw [walk_eq_W]
  exact W_bounded s bp _ st msgs

/-- A non-positive limit takes no step. -/
theorem walk_limit_nonpos (s : Spec) (st : State) (msgs : List V) (l : Int) (bp : State → Bool)
    (h : l ≤ 0) :
    (walk s st msgs (some l) bp).strides = [] ∧ (walk s st msgs (some l) bp).stopped = .limited ∧
      (walk s st msgs (some l) bp).remaining = msgs := by
  rw [walk_eq_W]
  have : l.toNat = 0 := by omega
  simp [this, W_zero]

theorem W_consumes_prefix (s : Spec) (bp : State → Bool) :
    ∀ i st p, NonNullL p → ∃ rest, consumedOf (W s bp i st p) ++ rest = p ∧
      ((W s bp i st p).stopped ≠ .done → (W s bp i st p).remaining = rest) ∧
      ((W s bp i st p).stopped = .done → (W s bp i st p).remaining = []) := by
  apply W_ind s bp (P := fun _ _ p w => NonNullL p → ∃ rest, consumedOf w ++ rest = p ∧
      (w.stopped ≠ .done → w.remaining = rest) ∧ (w.stopped = .done → w.remaining = []))
  · intro st p _; exact ⟨p, rfl, fun _ => rfl, fun h => by cases h⟩
  · intro i st p _ _; exact ⟨p, rfl, fun _ => rfl, fun h => by cases h⟩
  · intro i st p _ _ _ hnn
    refine ⟨after (walkStride s st (pendingOf p)) p, ?_, fun h => absurd rfl h, fun _ => rfl⟩
    have := (consumed_after s st p hnn).1
    have h2 : consumedOf { strides := [walkStride s st (pendingOf p)], remaining := [], stopped := .done }
        = consL (walkStride s st (pendingOf p)) := by
      have := consumedOf_cons (walkStride s st (pendingOf p))
        { strides := [], remaining := [], stopped := .done }
      simpa [Walked.cons, consumedOf] using this
    rw [h2]; exact this
  · intro i st p w _ _ _ _ ih hnn
    obtain ⟨h1, h2⟩ := consumed_after s st p hnn
    obtain ⟨rest, h3, h4, h5⟩ := ih h2
    refine ⟨rest, ?_, h4, h5⟩
    rw [consumedOf_cons, List.append_assoc, h3, h1]
  · intro i st p t w _ _ ih hnn
    obtain ⟨h1, h2⟩ := consumed_after s st p hnn
    obtain ⟨rest, h3, h4, h5⟩ := ih h2
    refine ⟨rest, ?_, h4, h5⟩
    rw [consumedOf_cons, List.append_assoc, h3, h1]

/-- Messages are consumed strictly in order, each at most once: the consumed messages are a prefix
    of the batch; stopping at the limit or at a breakpoint reports exactly the unconsumed remainder;
    completion reports none. -/
theorem walk_consumes_prefix (s : Spec) (st : State) (msgs : List V) (limit : Option Int)
    (bp : State → Bool) (hnn : NonNull msgs) :
    let w := walk s st msgs limit bp
    ∃ rest, consumedOf w ++ rest = msgs ∧
      (w.stopped ≠ .done → w.remaining = rest) ∧
      (w.stopped = .done → w.remaining = []) := by
  intro w
  exact W_consumes_prefix s bp _ st msgs hnn

/-- Each step starts from the state the previous one produced (or from the unchanged state when the
    previous one went nowhere); the first starts from the given state. -/
def Chained : State → List Stride → Prop
  | _, [] => True
  | st, sd :: rest =>
    sd.frm = stateCopy st ∧
      Chained (match sd.to with | some t => stateCopy t | none => st) rest

theorem walk_chain (s : Spec) (st : State) (msgs : List V) (limit : Option Int) (bp : State → Bool) :
    Chained st (walk s st msgs limit bp).strides := by
  rw [walk_eq_W]
  revert st msgs
  generalize (match limit with | none => defaultLimit | some l => l).toNat = i
  revert i
  apply W_ind s bp (P := fun _ st _ w => Chained st w.strides)
  · intro st p; trivial
  · intro i st p _; trivial
  · intro i st p _ _ _
    exact ⟨walkStride_frm s st _, trivial⟩
  · intro i st p w _ ht _ _ ih
    refine ⟨walkStride_frm s st _, ?_⟩
    rw [ht]; exact ih
  · intro i st p t w _ ht ih
    refine ⟨walkStride_frm s st _, ?_⟩
    rw [ht]; exact ih

theorem W_done_quiescent (s : Spec) (bp : State → Bool) :
    ∀ i st p, (W s bp i st p).stopped = .done →
      (walkStride s ((lastTo (W s bp i st p).strides).getD st) none).to = none := by
  apply W_ind s bp (P := fun _ st _ w => w.stopped = .done →
      (walkStride s ((lastTo w.strides).getD st) none).to = none)
  · intro st p h; cases h
  · intro i st p _ h; cases h
  · intro i st p _ ht _ _
    rw [lastTo_cons_getD, ht]
    simp only [lastTo, Option.getD_none]
    cases hc : canConsume s st.node with
    | true => rw [walkStride_consumer_none s st hc]; rfl
    | false => rw [walkStride_indep s st hc none (pendingOf p)]; exact ht
  · intro i st p w _ ht _ _ ih hd
    simp only [Walked.cons]
    rw [lastTo_cons_getD, ht]
    exact ih hd
  · intro i st p t w _ ht ih hd
    simp only [Walked.cons]
    rw [lastTo_cons_getD, ht]
    simp only [Option.getD_some]
    rw [walkStride_to_copy s st _ t ht] at ih
    exact ih hd

set_option linter.unusedVariables false in
/-- When the walk reports completion the machine is quiescent: one more iteration without a message
    goes nowhere. -/
theorem walk_done_quiescent (s : Spec) (st : State) (msgs : List V) (limit : Option Int)
    (bp : State → Bool) (hnn : NonNull msgs) :
    let w := walk s st msgs limit bp
    w.stopped = .done → (walkStride s (finalState st w) none).to = none := by
  intro w
  exact W_done_quiescent s bp _ st msgs

theorem W_done_no_discard (s : Spec) (bp : State → Bool) :
    ∀ i st p, NonNullL p → (W s bp i st p).stopped = .done →
      (consumedOf (W s bp i st p)).length < p.length →
      canConsume s ((lastTo (W s bp i st p).strides).getD st).node = false := by
  apply W_ind s bp (P := fun _ st p w => NonNullL p → w.stopped = .done →
      (consumedOf w).length < p.length →
      canConsume s ((lastTo w.strides).getD st).node = false)
  · intro st p _ h; cases h
  · intro i st p _ _ h; cases h
  · intro i st p _ ht hs hnn _ hlen
    rw [lastTo_cons_getD, ht]
    simp only [lastTo, Option.getD_none]
    cases hc : canConsume s st.node with
    | false => rfl
    | true =>
      exfalso
      cases p with
      | nil => simp at hlen
      | cons m p' =>
        have hm := hnn m List.mem_cons_self
        have hcons := walkStride_consumer_some s st m hc
        rw [pendingOf_cons p' hm] at hs hlen
        have hafter : after (walkStride s st (some m)) (m :: p') = p' := by
          unfold after; rw [hcons]; rfl
        rw [hafter, hcons] at hs
        rcases hs with hs | hs
        · have : p' = [] := by simpa using hs
          subst this
          simp [consumedOf, hcons] at hlen
        · cases hs
  · intro i st p w _ ht _ _ ih hnn hd hlen
    obtain ⟨h1, h2⟩ := consumed_after s st p hnn
    simp only [Walked.cons]
    rw [lastTo_cons_getD, ht]
    refine ih h2 hd ?_
    rw [consumedOf_cons, List.length_append] at hlen
    have := congrArg List.length h1
    rw [List.length_append] at this
    omega
  · intro i st p t w _ ht ih hnn hd hlen
    obtain ⟨h1, h2⟩ := consumed_after s st p hnn
    simp only [Walked.cons]
    rw [lastTo_cons_getD, ht]
    simp only [Option.getD_some]
    rw [walkStride_to_copy s st _ t ht] at ih
    refine ih h2 hd ?_
    rw [consumedOf_cons, List.length_append] at hlen
    have := congrArg List.length h1
    rw [List.length_append] at this
    omega

/-- When the walk reports completion no message was discarded while the machine was at a node
    able to consume it. -/
theorem walk_done_no_discard_at_consumer (s : Spec) (st : State) (msgs : List V) (limit : Option Int)
    (bp : State → Bool) (hnn : NonNull msgs) :
    let w := walk s st msgs limit bp
    w.stopped = .done → (consumedOf w).length < msgs.length →
      canConsume s (finalState st w).node = false := by
  intro w
  exact W_done_no_discard s bp _ st msgs hnn

/-- Any split of a batch: if the whole batch and the two halves all run to completion (neither the
    limit nor a breakpoint intervenes), the final state and the emitted messages, in order, are the
    same.  By induction this gives every partition into consecutive batches. -/
theorem walk_split (s : Spec) (st : State) (a b : List V) (lab la lb : Option Int)
    (hnn : NonNull (a ++ b)) :
    let nobp : State → Bool := fun _ => false
    let w := walk s st (a ++ b) lab nobp
    let w₁ := walk s st a la nobp
    let w₂ := walk s (finalState st w₁) b lb nobp
    w.stopped = .done → w₁.stopped = .done → w₂.stopped = .done →
      stateCopy (finalState st w) = stateCopy (finalState (finalState st w₁) w₂) ∧
      emittedOf w = emittedOf w₁ ++ emittedOf w₂ := by
  intro nobp w w₁ w₂ h h1 h2
  obtain ⟨e1, e2⟩ := W_split s _ _ _ st a b hnn h1 h h2
  exact ⟨congrArg stateCopy e1, e2⟩

end Sheens.C05
