import Sheens.ES

/-! Property C05 — theorems (in progress). -/
