import Sheens.Expect

/-! Property C19 — theorems (in progress). -/
