import Sheens.Expect
import Sheens.Proofs.ExpectLemmas

/-!
# Property C19 — the expectation tool's verdict is sound

Over the model `Expect.verdict` of `Session.Run` (repaired tree), for all sessions (any number of
steps, expected and inverted outputs, guards as arbitrary functions) and all event streams.
-/

namespace Sheens.C19

open Expect

def linesOf (evs : List Event) : List V :=
  evs.filterMap (fun e => match e with | .line v => some v | _ => none)

/-- a chunk of the stream serves a step: every expected output is accepted by some line of the
    chunk, and no forbidden (inverted) output accepts any line of the chunk -/
def Serves (st : IOStep) (chunk : List Event) : Prop :=
  (∀ o ∈ st.outputs, o.inverted = false → ∃ l ∈ linesOf chunk, accepts o l = .ok true) ∧
  (∀ o ∈ st.outputs, o.inverted = true → ∀ l ∈ linesOf chunk, accepts o l ≠ .ok true)

/-- consecutive chunks of the stream, one per step, each serving its step -/
inductive Witnessed : List IOStep → List Event → Prop
  | nil  : Witnessed [] evs
  | cons : Serves st chunk → Witnessed more rest → Witnessed (st :: more) (chunk ++ rest)

/-- One step that completes has consumed a chunk that serves it. -/
theorem runStep_sound (st : IOStep) (evs rest : List Event)
    (h : runStep st.outputs (st.outputs.map (fun _ => false)) (needOf st.outputs) evs = .ok rest) :
    ∃ chunk, evs = chunk ++ rest ∧ Serves st chunk := by
  exact runStep_serves st.outputs evs rest h

/-- The session passes only if, step by step, every expected output was matched (and accepted by its
    guard) by some emitted message of that step and no forbidden pattern was matched.  In particular
    each expected output has a witnessing line of its own: a message appearing twice does not stand
    in for a different expected message (it would have to be accepted by that one too). -/
theorem verdict_sound (steps : List IOStep) (evs : List Event) (h : verdict steps evs = .pass) :
    Witnessed steps evs := by
  induction steps generalizing evs with
  | nil => exact .nil
  | cons st more ih =>
    simp only [verdict] at h
    cases hr : runStep st.outputs (st.outputs.map (fun _ => false)) (needOf st.outputs) evs with
    | error e => simp [hr] at h
    | ok rest =>
      simp only [hr] at h
      obtain ⟨chunk, rfl, hs⟩ := runStep_sound st evs rest hr
      exact .cons hs (ih rest h)

/-- If an expected message never arrives before the timeout (or the stream ends), the session fails. -/
theorem missing_expected_fails (st : IOStep) (more : List IOStep) (evs : List Event) (o : Output)
    (ho : o ∈ st.outputs) (hi : o.inverted = false)
    (hnone : ∀ l ∈ linesOf evs, accepts o l ≠ .ok true) :
    verdict (st :: more) evs ≠ .pass := by
  intro hp
  simp only [verdict] at hp
  cases hr : runStep st.outputs (st.outputs.map (fun _ => false)) (needOf st.outputs) evs with
  | error e => simp [hr] at hp
  | ok rest =>
    obtain ⟨chunk, rfl, hs⟩ := runStep_sound st evs rest hr
    obtain ⟨l, hl, ha⟩ := hs.1 o ho hi
    refine hnone l ?_ ha
    simp only [linesOf, List.filterMap_append, List.mem_append]
    exact Or.inl hl

end Sheens.C19
