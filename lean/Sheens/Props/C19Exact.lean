import Sheens.Props.C19
import Sheens.Proofs.ExpectExact

/-!
# Property C19, both directions — the verdict is *exactly* "every step is served by the lines the tool reads for it"

`C19.verdict_sound` is the dangerous direction with a free choice of chunks.  This file pins the
chunks down — a step reads the stream up to and including the first JSON line after which all its
expected outputs have been accepted — and proves the equivalence, so that "otherwise it fails"
(timeout, end of stream, a forbidden output, a match or guard error, an expected output that never
comes) is covered as well.

`StepChunk st chunk` is declarative (no fold): it speaks about which lines accept which outputs.
-/

namespace Sheens.C19

open Expect

/-- some line accepts the output -/
def SatisfiedBy (o : Output) (ls : List V) : Prop := ∃ l ∈ ls, accepts o l = .ok true

/-- every expected output of the step is accepted by some line -/
def Completes (st : IOStep) (ls : List V) : Prop :=
  ∀ o ∈ st.outputs, o.inverted = false → SatisfiedBy o ls

/-- `chunk` is exactly what the tool reads for the step `st`, and the step passes on it -/
structure StepChunk (st : IOStep) (chunk : List Event) : Prop where
  /-- the step's timeout does not strike and the stream does not end inside the chunk -/
  noEnd : ∀ e ∈ chunk, e ≠ .timeout ∧ e ≠ .eof
  /-- the chunk ends with the JSON line that completes the step … -/
  completes : ∃ pre v, chunk = pre ++ [.line v] ∧ Completes st (linesOf chunk)
  /-- … and no earlier JSON line of the chunk does -/
  minimal : ∀ pre v rest, chunk = pre ++ [.line v] ++ rest → rest ≠ [] →
              ¬ Completes st (linesOf (pre ++ [.line v]))
  /-- no forbidden output accepts any line of the chunk -/
  noForbidden : ∀ o ∈ st.outputs, o.inverted = true → ∀ l ∈ linesOf chunk, accepts o l ≠ .ok true
  /-- offering a line to an output that is still outstanding (forbidden, or expected and not yet
      accepted by an earlier line) raises no match or guard error -/
  noError : ∀ pre l post, linesOf chunk = pre ++ l :: post → ∀ o ∈ st.outputs,
              (o.inverted = true ∨ ¬ SatisfiedBy o pre) → ∀ e, accepts o l ≠ .error e

/-- consecutive chunks, one per step, each exactly the step's chunk; what follows is not read -/
inductive Reads : List IOStep → List Event → Prop
  | nil  : Reads [] evs
  | cons : StepChunk st chunk → Reads more rest → Reads (st :: more) (chunk ++ rest)

/-- `StepChunk` is the helper file's `GChunk` (generalised over the lines already consumed), at the
    start of the step; the two agree field by field, definitionally -/
theorem stepChunk_iff {st : IOStep} {chunk : List Event} :
    StepChunk st chunk ↔ GChunk st.outputs [] chunk :=
  ⟨fun ⟨a, b, c, d, e⟩ => ⟨a, b, c, d, e⟩, fun ⟨a, b, c, d, e⟩ => ⟨a, b, c, d, e⟩⟩

/-- The session passes **iff** every step is served by exactly the lines the tool reads for it. -/
theorem verdict_pass_iff (steps : List IOStep) (evs : List Event) :
    verdict steps evs = .pass ↔ Reads steps evs := by
  constructor
  · intro h
    induction steps generalizing evs with
    | nil => exact .nil
    | cons st more ih =>
      simp only [verdict] at h
      cases hr : runStep st.outputs (st.outputs.map (fun _ => false)) (needOf st.outputs) evs with
      | error e => simp [hr] at h
      | ok rest =>
        simp only [hr] at h
        obtain ⟨chunk, rfl, hc⟩ := (runStep_ok_iff st.outputs evs rest).mp hr
        exact .cons (stepChunk_iff.mpr hc) (ih rest h)
  · intro h
    induction h with
    | nil => rfl
    | @cons st chunk more rest hc _ ih =>
      simp only [verdict]
      rw [(runStep_ok_iff st.outputs (chunk ++ rest) rest).mpr ⟨chunk, rfl, stepChunk_iff.mp hc⟩]
      exact ih

/-- non-vacuity: expecting A and forbidding B, the stream A passes and the stream B, A does not -/
def exA : V := .obj [("m", .str "A")]
def exB : V := .obj [("m", .str "B")]
def exStep : IOStep := { outputs := [{ pattern := exA, guard := none, inverted := false },
                                     { pattern := exB, guard := none, inverted := true }] }
example : verdict [exStep] [.line exA, .timeout] = .pass := by decide
example : verdict [exStep] [.line exB, .line exA, .timeout] ≠ .pass := by decide

end Sheens.C19
