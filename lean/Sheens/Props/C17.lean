import Sheens.Timers
import Sheens.Proofs.TimersInv

/-!
# Property C17 — timers

Over the transition system of `Sheens/Timers.lean`, for both implementations (`rep = false`:
mcrew, `Add` on a pending id is refused; `rep = true`: sio, it replaces the pending timer), for
**all** traces: every sequence of make/cancel requests (from the requester or from inside the
handler of a firing message — the handler's requests are ordinary actions that follow the firing),
every interleaving with the timer goroutines' steps, every advance of the clock.

Real time (`time.NewTimer` not firing early, the scheduler eventually running a due goroutine) is
trusted; "never early" is proved against the logical clock.
-/

namespace Sheens.C17

open Timers

def Reachable (rep : Bool) (s : St) : Prop := ∃ tr, run rep St.init tr = some s

/-- every reachable state satisfies the inductive invariant of `Sheens/Proofs/TimersInv.lean` -/
theorem Reachable.inv {rep : Bool} {s : St} (h : Reachable rep s) : Inv s := by
  obtain ⟨tr, hr⟩ := h
  exact Inv.run tr Inv.init hr

/-- An accepted timer fires at most once. -/
theorem fires_at_most_once (rep : Bool) (s : St) (h : Reachable rep s) : firedOnce s = true := by
  exact h.inv.firedOnce

/-- Never before its due time. -/
theorem never_early (rep : Bool) (s : St) (h : Reachable rep s) : neverEarly s = true := by
  exact h.inv.neverEarly

/-- A timer whose cancellation succeeded (or that was replaced) never fires. -/
theorem never_after_cancel (rep : Bool) (s : St) (h : Reachable rep s) : neverBoth s = true := by
  exact h.inv.neverBoth

/-- The timers reported as pending are exactly those accepted and not yet fired or cancelled. -/
theorem table_is_pending (rep : Bool) (s : St) (h : Reachable rep s) : tableIsPending s = true := by
  exact h.inv.tableIsPending

/-- Every pending timer has its goroutine parked (so it can still fire or be cancelled), and ids in
    the table are distinct. -/
theorem table_live (rep : Bool) (s : St) (h : Reachable rep s) :
    tableLive s = true ∧ tableIdsDistinct s = true := by
  exact ⟨h.inv.tableLive, h.inv.tableIdsDistinct⟩

/-- A timer's id is free for reuse from the moment it fires: right after the firing step the id is
    not in the table, so making a timer under it is accepted. -/
theorem id_free_after_fire (rep : Bool) (s s' : St) (g : Gen) (h : Reachable rep s)
    (hs : step rep s (.due g) = some s')
    (hf : g ∈ s'.fired.map (·.1)) (hn : g ∉ s.fired.map (·.1)) :
    ∃ p, procOf g s.procs = some p ∧ lookupT p.id s'.table = none ∧
      ∀ d, (step rep s' (.add p.id d)).isSome = true := by
  have _ := h   -- reachability is not needed for this one
  obtain ⟨p, hp, _, _, ⟨hl, e⟩ | ⟨_, e⟩⟩ := step_due hs
  · subst e
    have hl' : lookupT p.id (fireSt g p s).table = none := lookupT_eraseT_self p.id s.table
    refine ⟨p, hp, hl', fun d => ?_⟩
    rw [step_add_none hl']; rfl
  · subst e
    exact absurd hf hn

/-- A timer made under any id (re-created by a handler or not) is in the table under that id, hence
    cancellable, until it fires or is cancelled. -/
theorem accepted_is_cancellable (rep : Bool) (s s' : St) (id : Tid) (d : Nat)
    (hs : step rep s (.add id d) = some s') :
    lookupT id s'.table = some s.nextGen ∧ (step rep s' (.rem id)).isSome = true := by
  have key : ∀ s0 : St, lookupT id (freshSt id d s0).table = some s0.nextGen := by
    intro s0; simp [freshSt, lookupT]
  rcases step_add hs with ⟨_, e⟩ | ⟨old, _, _, e⟩
  · subst e
    refine ⟨key s, ?_⟩
    rw [step_rem_some (key s)]; rfl
  · subst e
    refine ⟨key (remSt id old s), ?_⟩
    rw [step_rem_some (key (remSt id old s))]; rfl

/-- If not cancelled it fires once due: a pending timer's goroutine is parked, and as soon as the
    clock has reached the due time its due step is enabled and fires it. -/
theorem pending_fires_when_due (rep : Bool) (s : St) (g : Gen) (h : Reachable rep s)
    (hp : g ∈ pendingGens s) :
    ∃ p, procOf g s.procs = some p ∧ p.phase = .waiting ∧
      (p.due ≤ s.now → ∃ s', step rep s (.due g) = some s' ∧ g ∈ s'.fired.map (·.1)) := by
  have hi := h.inv
  obtain ⟨id, hm⟩ := mem_pendingGens.mp hp
  obtain ⟨p, hpo, hpi, hpw⟩ := hi.live id g hm
  refine ⟨p, hpo, hpw, fun hd => ⟨fireSt g p s, ?_, ?_⟩⟩
  · exact step_due_fire hpo hpw hd (hpi ▸ lookupT_of_mem hi.ids hm)
  · simp [fireSt]

/-- A cancelled (or superseded) timer's goroutine never fires it: its due step, if taken, only
    retires the goroutine. -/
theorem cancelled_due_is_silent (rep : Bool) (s s' : St) (g : Gen) (h : Reachable rep s)
    (hc : g ∈ s.cancelled) (hs : step rep s (.due g) = some s') : s'.fired = s.fired := by
  obtain ⟨p, _, _, _, ⟨hl, _⟩ | ⟨_, e⟩⟩ := step_due hs
  · exact absurd hc (h.inv.tabNC p.id g (lookupT_some_mem hl))
  · subst e; rfl

/-- Restart (sio): re-arming the published table keeps the pending set and every due time, and the
    restarted service satisfies the same invariants. -/
theorem restart_resumes (s : St) (h : Reachable true s) :
    pendingGens (restart s) = pendingGens s ∧
    (∀ g ∈ pendingGens s, ∀ p, procOf g s.procs = some p →
        ∃ p', procOf g (restart s).procs = some p' ∧ p'.due = p.due ∧ p'.id = p.id ∧ p'.phase = .waiting) ∧
    tableLive (restart s) = true ∧ tableIsPending (restart s) = true := by
  have hi := h.inv
  have hall : ∀ id g, (id, g) ∈ s.table → ∃ p, procOf g s.procs = some p ∧ p.id = id := by
    intro id g hm
    obtain ⟨p, hp, hpi, _⟩ := hi.live id g hm
    exact ⟨p, hp, hpi⟩
  refine ⟨rfl, ?_, ?_, ?_⟩
  · intro g hg p hp
    obtain ⟨id, hm⟩ := mem_pendingGens.mp hg
    exact ⟨{ gen := g, id := p.id, due := p.due, phase := .waiting },
      by rw [restart_procs]; exact procOf_restartProcs s.table hall hm hp, rfl, rfl, rfl⟩
  · unfold tableLive
    rw [List.all_eq_true]
    rintro ⟨id, g⟩ hm
    obtain ⟨p, hp, hpi⟩ := hall id g hm
    simp only [restart_procs, procOf_restartProcs s.table hall hm hp]
    simp [hpi]
  · unfold tableIsPending
    rw [Bool.and_eq_true, List.all_eq_true, List.all_eq_true]
    constructor
    · intro g hg
      have hg' : g ∈ pendingGens s := hg
      simp [restart, pendingGens] at hg' ⊢
      exact hg'
    · intro g hg
      have hg' : g ∈ pendingGens s := hg
      simpa [restart] using hg'

end Sheens.C17
