import Sheens.Timers

/-! Property C17 — theorems (in progress). -/
