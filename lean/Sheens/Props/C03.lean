import Sheens.MatchSpec

/-! Property C03 — theorems (in progress). -/
