import Sheens.Proofs.MatchExtends
import Sheens.Props.MatchTotal

/-!
# Property C03 — Match is a pure function

What is *proved* here is limited (see DESIGN.md §7, C03):

* the full order-independence statement is kept visible (`order_independent_full`) and **refuted**
  for the code as it is, with the two witnesses of the known findings KF-C03-1 and KF-C03-2
  (evaluated in the kernel by `decide`); order independence on the rest of the domain is decided
  per run by the correspondence over all key-order permutations, not by a theorem;
* evaluation is a function (same arguments, same result) and more fuel never changes a result;
* every result extends the bindings it was given (`matchF_extends`, unconditional).

"Arguments are never modified, results are independent maps" lives below the level of this model
(pure functions cannot modify their arguments); it is decided by the regenerated source facts
(`FactsOK.match_copies_first`, `copyBindingss_copies`, `matcher_branches_copy`,
`matcher_writes_only_locals_and_bindings`) and the snapshot / pointer-identity probes.
-/

namespace Sheens.C03

/-- same success-or-error outcome and same multiset of binding sets (here: as lists up to the
    order-insensitive comparison `resEq` supplied by the caller) for every order of the pattern's keys -/
def order_independent_full : Prop :=
  ∀ (n : Nat) (kvs kvs' : List (String × V)) (f : V) (bs : Bs),
    kvs'.Perm kvs → matchF n (.obj kvs) f bs ≠ .diverge → matchF n (.obj kvs') f bs ≠ .diverge →
    (∀ e, matchF n (.obj kvs) f bs = .err e ↔ matchF n (.obj kvs') f bs = .err e) ∧
    (∀ rs, matchF n (.obj kvs) f bs = .ok rs → ∃ rs', matchF n (.obj kvs') f bs = .ok rs' ∧ rs'.length = rs.length)

def okCount : MRes → Option Nat
  | .ok l => some l.length
  | _ => none

def isErr : MRes → Bool
  | .err _ => true
  | _ => false

/-- KF-C03-1: a variable used at two keys with structured values — bound at `a` first, `b`'s larger
    value contains it (one result); bound at `b` first, `a`'s smaller value does not (no result). -/
def kf1Fact : V := .obj [("a", .obj [("p", .num 1)]), ("b", .obj [("p", .num 1), ("q", .num 2)])]

theorem kf1_a_first : okCount (matchF 40 (.obj [("a", .str "?x"), ("b", .str "?x")]) kf1Fact []) = some 1 := by decide
theorem kf1_b_first : okCount (matchF 40 (.obj [("b", .str "?x"), ("a", .str "?x")]) kf1Fact []) = some 0 := by decide

/-- KF-C03-2: invalid at key `a` (two variables in one array), merely non-matching at key `c`:
    an error if `a` is visited first, a plain no-match if `c` is. -/
def kf2Fact : V := .obj [("a", .arr [.num 1]), ("c", .num 4)]

theorem kf2_a_first : isErr (matchF 40 (.obj [("a", .arr [.str "?x", .str "?y"]), ("c", .num 3)]) kf2Fact []) = true := by decide
theorem kf2_c_first : okCount (matchF 40 (.obj [("c", .num 3), ("a", .arr [.str "?x", .str "?y"])]) kf2Fact []) = some 0 := by decide

/-- The full statement is false of the matcher as it is (witness: KF-C03-1). -/
theorem order_independent_full_false : ¬ order_independent_full := by
  intro h
  have hp : List.Perm [("b", V.str "?x"), ("a", V.str "?x")] [("a", V.str "?x"), ("b", V.str "?x")] :=
    List.Perm.swap _ _ _
  have h1 : matchF 40 (.obj [("a", .str "?x"), ("b", .str "?x")]) kf1Fact [] ≠ .diverge := by
    intro hd; have := kf1_a_first; rw [hd] at this; simp [okCount] at this
  have h2 : matchF 40 (.obj [("b", .str "?x"), ("a", .str "?x")]) kf1Fact [] ≠ .diverge := by
    intro hd; have := kf1_b_first; rw [hd] at this; simp [okCount] at this
  obtain ⟨_, hok⟩ := h 40 _ _ kf1Fact [] hp h1 h2
  have ha := kf1_a_first
  have hb := kf1_b_first
  cases hm : matchF 40 (.obj [("a", .str "?x"), ("b", .str "?x")]) kf1Fact [] with
  | ok rs =>
    obtain ⟨rs', hrs', hlen⟩ := hok rs hm
    rw [hm] at ha; rw [hrs'] at hb
    simp only [okCount, Option.some.injEq] at ha hb
    omega
  | err e => rw [hm] at ha; simp [okCount] at ha
  | diverge => exact h1 hm

/-- Evaluation is a function of its arguments: evaluating again gives the same outcome. -/
theorem match_deterministic (n : Nat) (p f : V) (bs : Bs) (r₁ r₂ : MRes)
    (h₁ : matchF n p f bs = r₁) (h₂ : matchF n p f bs = r₂) : r₁ = r₂ := h₁ ▸ h₂

/-- … whatever the fuel, once it suffices. -/
theorem match_fuel_irrelevant (n m : Nat) (p f : V) (bs : Bs)
    (hn : matchF n p f bs ≠ .diverge) (hm : matchF m p f bs ≠ .diverge) :
    matchF n p f bs = matchF m p f bs := by
  rcases Nat.le_total n m with h | h
  · exact (Sheens.MatchTotal.matchF_mono_le n m p f bs _ h rfl hn).symm
  · exact Sheens.MatchTotal.matchF_mono_le m n p f bs _ h rfl hm

/-- Every result extends the bindings it was given (no hypotheses). -/
theorem results_extend_given (n : Nat) (p f : V) (bs : Bs) (rs : List Bs) (r : Bs)
    (h : matchF n p f bs = .ok rs) (hr : r ∈ rs) : ∀ k v, lookup k bs = some v → lookup k r = some v :=
  matchF_extends h hr

end Sheens.C03
