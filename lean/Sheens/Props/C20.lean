import Sheens.Tools
import Sheens.Proofs.ToolsLemmas

/-!
# Property C20 — analysis and graph renderings are faithful to the spec

Over the structural model `Tools.analyze` / `Tools.render` (both renderers emit the same structure),
for all spec graphs (node names distinct, as in a Go map).
-/

namespace Sheens.C20

open Tools

def Distinct (s : TSpec) : Prop := (s.map (·.1)).Nodup

/-- Missing targets: exactly the non-variable branch targets that are not nodes. -/
theorem missing_exact (s : TSpec) (t : String) :
    t ∈ (analyze s).missing ↔
      ∃ b ∈ allBranches s, b.target = t ∧ isTargetVar t = false ∧ hasNode s t = false := by
  simp only [analyze, mem_dedupS, List.mem_filter, List.mem_map, Bool.and_eq_true,
    Bool.not_eq_true']
  constructor
  · rintro ⟨⟨b, hb, rfl⟩, h1, h2⟩; exact ⟨b, hb, rfl, h1, h2⟩
  · rintro ⟨b, hb, rfl, h1, h2⟩; exact ⟨⟨b, hb, rfl⟩, h1, h2⟩

/-- Branch target variables: exactly the variable targets. -/
theorem targetVars_exact (s : TSpec) (t : String) :
    t ∈ (analyze s).targetVars ↔ ∃ b ∈ allBranches s, b.target = t ∧ isTargetVar t = true := by
  simp only [analyze, mem_dedupS, List.mem_filter, List.mem_map]
  constructor
  · rintro ⟨⟨b, hb, rfl⟩, h1⟩; exact ⟨b, hb, rfl, h1⟩
  · rintro ⟨b, hb, rfl, h1⟩; exact ⟨⟨b, hb, rfl⟩, h1⟩

/-- Terminal nodes: exactly the nodes without branches. -/
theorem terminal_exact (s : TSpec) (n : String) :
    n ∈ (analyze s).terminal ↔ ∃ nd, (n, nd) ∈ s ∧ branchesOf nd = [] := by
  simp only [analyze, List.mem_map, List.mem_filter, List.isEmpty_iff]
  constructor
  · rintro ⟨⟨n', nd⟩, ⟨hp, he⟩, rfl⟩; exact ⟨nd, hp, he⟩
  · rintro ⟨nd, hp, he⟩; exact ⟨(n, nd), ⟨hp, he⟩, rfl⟩

/-- Orphans: exactly the nodes no branch targets. -/
theorem orphans_exact (s : TSpec) (n : String) :
    n ∈ (analyze s).orphans ↔ (n ∈ s.map (·.1) ∧ ∀ b ∈ allBranches s, b.target ≠ n) := by
  simp only [analyze, List.mem_filter, Bool.not_eq_true', List.contains_eq_mem,
    decide_eq_false_iff_not, List.mem_map, not_exists, not_and]

/-- The counts are those of the spec graph. -/
theorem counts_exact (s : TSpec) :
    (analyze s).nodeCount = s.length ∧
    (analyze s).branches = (s.map (fun p => (branchesOf p.2).length)).sum ∧
    (analyze s).actions = (s.filter (fun p => p.2.hasAction)).length ∧
    (analyze s).guards = (s.map (fun p => ((branchesOf p.2).filter (·.hasGuard)).length)).sum := by
  refine ⟨rfl, ?_, rfl, ?_⟩
  · exact length_flatMap_sum s _
  · show ((allBranches s).filter (·.hasGuard)).length = _
    rw [allBranches, filter_flatMap', length_flatMap_sum]

/-- Interpreters: those named by an action source or a guard source, or "default" when none is. -/
theorem interpreters_exact (s : TSpec) (i : String) :
    i ∈ (analyze s).interpreters ↔
      ((∃ p ∈ s, p.2.actionInterp = some i) ∨ (∃ b ∈ allBranches s, b.guardInterp = some i)) ∨
      ((∀ p ∈ s, p.2.actionInterp = none) ∧ (∀ b ∈ allBranches s, b.guardInterp = none) ∧ i = "default") := by
  have hmem : ∀ j, j ∈ (s.filterMap (fun p => p.2.actionInterp)) ++ ((allBranches s).filterMap (·.guardInterp)) ↔
      ((∃ p ∈ s, p.2.actionInterp = some j) ∨ (∃ b ∈ allBranches s, b.guardInterp = some j)) := by
    intro j
    simp only [List.mem_append, List.mem_filterMap]
  show i ∈ (if ((s.filterMap (fun p => p.2.actionInterp)) ++ ((allBranches s).filterMap (·.guardInterp))).isEmpty
      then ["default"] else dedupS _) ↔ _
  generalize (s.filterMap (fun p => p.2.actionInterp)) ++ ((allBranches s).filterMap (·.guardInterp)) = interps at hmem
  cases interps with
  | nil =>
    have hA : ∀ p ∈ s, p.2.actionInterp = none := by
      intro p hp
      cases h : p.2.actionInterp with
      | none => rfl
      | some j => exact absurd ((hmem j).mpr (Or.inl ⟨p, hp, h⟩)) (by simp)
    have hG : ∀ b ∈ allBranches s, b.guardInterp = none := by
      intro b hb
      cases h : b.guardInterp with
      | none => rfl
      | some j => exact absurd ((hmem j).mpr (Or.inr ⟨b, hb, h⟩)) (by simp)
    simp only [List.isEmpty_nil, if_true, List.mem_singleton]
    constructor
    · intro h; exact Or.inr ⟨hA, hG, h⟩
    · rintro (h | ⟨_, _, h⟩)
      · exact absurd ((hmem i).mpr h) (by simp)
      · exact h
  | cons j js =>
    simp only [List.isEmpty_cons, Bool.false_eq_true, if_false, mem_dedupS]
    rw [hmem]
    constructor
    · exact Or.inl
    · rintro (h | ⟨hA, hG, _⟩)
      · exact h
      · exfalso
        rcases (hmem j).mp List.mem_cons_self with ⟨p, hp, h⟩ | ⟨b, hb, h⟩
        · rw [hA p hp] at h; cases h
        · rw [hG b hb] at h; cases h

/-- The renderings declare exactly the spec's nodes and the branch targets that are not nodes
    (missing or variable targets) … -/
theorem render_nodes_exact (s : TSpec) (n : String) :
    n ∈ (render s).nodes ↔ (n ∈ s.map (·.1) ∨ ∃ b ∈ allBranches s, b.target = n) := by
  rw [render_eq]
  show n ∈ ((order s).foldl visit ([], [])).1 ↔ _
  rw [foldl_visit_mem]
  simp only [List.not_mem_nil, false_or, List.mem_map, mem_allBranches, mem_order]

/-- … each exactly once. -/
theorem render_nodes_once (s : TSpec) : (render s).nodes.Nodup := by
  rw [render_eq]
  exact foldl_visit_nodup _ _ List.nodup_nil

/-- One edge per branch, in branch order: every node with a branch list contributes exactly the list
    of its branch targets, and nothing else is drawn. -/
theorem render_edges_exact (s : TSpec) (hd : Distinct s) (name : String) (ts : List String) :
    (name, ts) ∈ (render s).edges ↔ ∃ nd bs, (name, nd) ∈ s ∧ nd.branches = some bs ∧ ts = bs.map (·.target) := by
  have _ := hd   -- distinctness is not needed
  rw [render_eq]
  show (name, ts) ∈ ((order s).foldl visit ([], [])).2 ↔ _
  rw [foldl_visit_snd, List.nil_append, List.mem_filterMap]
  constructor
  · rintro ⟨⟨n', nd⟩, hp, he⟩
    rw [mem_order] at hp
    unfold edgeOf at he
    cases hb : nd.branches with
    | none => simp [hb] at he
    | some bs =>
      simp only [hb, Option.map_some, Option.some.injEq, Prod.mk.injEq] at he
      obtain ⟨rfl, rfl⟩ := he
      exact ⟨nd, bs, hp, hb, rfl⟩
  · rintro ⟨nd, bs, hp, hb, rfl⟩
    exact ⟨(name, nd), (mem_order _ _).mpr hp, by simp [edgeOf, hb]⟩

theorem render_edges_count (s : TSpec) :
    (render s).edges.length = (s.filter (fun p => p.2.branches.isSome)).length := by
  rw [render_eq]
  show (((order s).foldl visit ([], [])).2).length = _
  rw [foldl_visit_snd, List.nil_append, length_filterMap_edgeOf, length_filter_order]

end Sheens.C20
