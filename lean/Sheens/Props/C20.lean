import Sheens.Tools

/-! Property C20 — theorems (in progress). -/
