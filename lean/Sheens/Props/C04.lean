import Sheens.ES
import Sheens.Proofs.EngineLemmas

/-!
# Property C04 — a step follows the documented transition rule

"Decision logic stated outright" over the model `step`/`consider`/`tryAll`/`tryBranch` of
`core/step.go`, for all specs, states, pending messages and all action/guard *functions*.
-/

namespace Sheens.C04

/-- Branches are tried in their listed order: the result is decided by the first branch that fires. -/
theorem tryAll_first (bs : Option Bs) (against : V) (brs : List Branch) (t : State) :
    tryAll bs against brs = .ok (some t) ↔
      ∃ pre br post, brs = pre ++ br :: post ∧
        (∀ b ∈ pre, tryBranch b bs against = .ok none) ∧ tryBranch br bs against = .ok (some t) := by
  exact tryAll_eq_iff bs against brs _ (by simp)

/-- No branch is taken iff every branch declines. -/
theorem tryAll_none (bs : Option Bs) (against : V) (brs : List Branch) :
    tryAll bs against brs = .ok none ↔ ∀ b ∈ brs, tryBranch b bs against = .ok none := by
  induction brs with
  | nil => simp [tryAll]
  | cons b rest ih =>
    constructor
    · intro h
      by_cases hb : tryBranch b bs against = .ok none
      · rw [tryAll_cons_none rest hb] at h
        intro x hx
        rcases List.mem_cons.mp hx with hx | hx
        · subst hx; exact hb
        · exact ih.mp h x hx
      · rw [tryAll_cons_ne rest hb] at h; exact absurd h hb
    · intro h
      rw [tryAll_cons_none rest (h b List.mem_cons_self)]
      exact ih.mpr (fun x hx => h x (List.mem_cons_of_mem _ hx))

/-- An error comes from the first branch that does not simply decline. -/
theorem tryAll_error (bs : Option Bs) (against : V) (brs : List Branch) (e : StepErr) :
    tryAll bs against brs = .error e ↔
      ∃ pre br post, brs = pre ++ br :: post ∧
        (∀ b ∈ pre, tryBranch b bs against = .ok none) ∧ tryBranch br bs against = .error e := by
  exact tryAll_eq_iff bs against brs _ (by simp)


/-- A branch without a guard fires iff its pattern (if any) yields exactly one candidate. -/
theorem tryBranch_unguarded (b : Branch) (bs : Option Bs) (against : V) (hg : b.guard = none) :
    tryBranch b bs against =
      (match candidates b bs against with
       | .error e => .error e
       | .ok [] => .ok none
       | .ok [none] => .ok none
       | .ok [some c] => .ok (some { node := targetOf b c, bs := some c })
       | .ok _ => .error .tooManyBindingss) := by
  unfold tryBranch
  generalize candidates b bs against = c
  rcases c with e | (_ | ⟨(_ | c), (_ | ⟨d, l⟩)⟩) <;> simp only [hg]

/-- A guarded branch fires with the bindings returned by the guard for the first candidate the
    guard accepts (candidates from a pattern; all are non-nil). -/
theorem tryBranch_guarded (b : Branch) (bs : Option Bs) (against : V) (g : ActionF) (p : V)
    (cs : List Bs) (hg : b.guard = some g) (hp : b.pattern = some p)
    (hc : matchTop p against (copyB bs) = .ok cs) :
    tryBranch b bs against =
      (match guardLoop g cs with
       | .error e => .error e
       | .ok none => .ok none
       | .ok (some c) => .ok (some { node := targetOf b c, bs := some c })) := by
  have hcand : candidates b bs against = .ok (cs.map some) := by
    unfold candidates; simp only [hp, hc, matchErrOf]; rfl
  have hfm : ∀ l : List Bs, (l.map some).filterMap id = l := by
    intro l
    induction l with
    | nil => rfl
    | cons c cs ih => simp
  unfold tryBranch
  simp only [hcand, hg]
  rcases cs with _ | ⟨c, _ | ⟨d, l⟩⟩
  · rfl
  · simp only [List.map, List.filterMap_cons, id, List.filterMap_nil]
    generalize guardLoop g _ = r; rcases r with e | (_ | c) <;> rfl
  · simp only [List.map_cons, List.filterMap_cons, id]
    rw [hfm l]
    generalize guardLoop g _ = r; rcases r with e | (_ | c) <;> rfl

/-- The guard loop returns the result for the first candidate whose guard returns bindings; a guard
    error stops it. -/
theorem guardLoop_first (g : ActionF) (cs : List Bs) (b : Bs) :
    guardLoop g cs = .ok (some b) ↔
      ∃ pre c post em, cs = pre ++ c :: post ∧
        (∀ x ∈ pre, (execWrap g (some x)).err = none ∧
            ∀ y em', (execWrap g (some x)).exe ≠ some (some y, em')) ∧
        (execWrap g (some c)).err = none ∧ (execWrap g (some c)).exe = some (some b, em) := by
  induction cs with
  | nil =>
    constructor
    · intro h; simp [guardLoop] at h
    · rintro ⟨pre, c, post, em, h, _⟩; simp at h
  | cons c rest ih =>
    simp only [guardLoop]
    cases he : (execWrap g (some c)).err with
    | some e =>
      simp only
      constructor
      · intro h; cases h
      · rintro ⟨pre, c', post, em, h1, h2, h3, h4⟩
        cases pre with
        | nil =>
          simp only [List.nil_append, List.cons.injEq] at h1
          obtain ⟨rfl, rfl⟩ := h1
          rw [he] at h3; cases h3
        | cons p pre' =>
          simp only [List.cons_append, List.cons.injEq] at h1
          obtain ⟨rfl, rfl⟩ := h1
          have := (h2 c List.mem_cons_self).1
          rw [he] at this; cases this
    | none =>
      simp only
      split
      · next b' em hx =>
        constructor
        · intro h
          cases h
          exact ⟨[], c, rest, em, rfl, fun x hx => (by cases hx), he, hx⟩
        · rintro ⟨pre, c', post, em', h1, h2, h3, h4⟩
          cases pre with
          | nil =>
            simp only [List.nil_append, List.cons.injEq] at h1
            obtain ⟨rfl, rfl⟩ := h1
            rw [hx] at h4; cases h4; rfl
          | cons p pre' =>
            simp only [List.cons_append, List.cons.injEq] at h1
            obtain ⟨rfl, rfl⟩ := h1
            exact absurd hx ((h2 c List.mem_cons_self).2 _ _)
      · next hx =>
        rw [ih]
        constructor
        · rintro ⟨pre, c', post, em, h1, h2, h3, h4⟩
          refine ⟨c :: pre, c', post, em, by rw [h1]; rfl, ?_, h3, h4⟩
          intro x hxm
          rcases List.mem_cons.mp hxm with hxm | hxm
          · subst hxm; exact ⟨he, fun y em' h => hx y em' h⟩
          · exact h2 x hxm
        · rintro ⟨pre, c', post, em, h1, h2, h3, h4⟩
          cases pre with
          | nil =>
            simp only [List.nil_append, List.cons.injEq] at h1
            obtain ⟨rfl, rfl⟩ := h1
            exact absurd h4 (hx _ _)
          | cons p pre' =>
            simp only [List.cons_append, List.cons.injEq] at h1
            obtain ⟨rfl, rfl⟩ := h1
            exact ⟨pre', c', post, em, rfl, fun x hxm => h2 x (List.mem_cons_of_mem _ hxm), h3, h4⟩


/-- Message branching consumes the pending message whether or not a branch is taken. -/
theorem step_message_consumes (s : Spec) (st : State) (m : V) (n : Node) (br : Branches)
    (hc : s.compiled = true) (hn : findNode st.node s.nodes = some n)
    (ha : n.action = none) (hs : n.hasSource = false)
    (hb : n.branches = some br) (ht : br.type = "message") :
    ∃ sd, (step s st (some m)).stride = some sd ∧ sd.consumed = some m := by
  rw [step_noaction s st _ n hc hn ha hs, stepRest_noaction _ _ _ _ _ ha, hb]
  refine ⟨_, rfl, ?_⟩
  simp only [consider_msg_some br st.bs m ht, if_true]

/-- Message branching does nothing when there is no pending message. -/
theorem step_message_idle (s : Spec) (st : State) (n : Node) (br : Branches)
    (hc : s.compiled = true) (hn : findNode st.node s.nodes = some n)
    (ha : n.action = none) (hs : n.hasSource = false)
    (hb : n.branches = some br) (ht : br.type = "message") :
    ∃ sd, (step s st none).stride = some sd ∧ sd.to = none ∧ sd.consumed = none ∧ sd.emitted = [] ∧
      (step s st none).err = none := by
  rw [step_noaction s st _ n hc hn ha hs, stepRest_noaction _ _ _ _ _ ha, hb,
    consider_msg_none br st.bs ht]
  exact ⟨_, rfl, rfl, rfl, rfl, rfl⟩

/-- Bindings branching (and a node without branching) never consumes. -/
theorem step_bindings_never_consumes (s : Spec) (st : State) (pending : Option V) (n : Node)
    (hn : findNode st.node s.nodes = some n)
    (hb : ∀ br, n.branches = some br → br.type ≠ "message") :
    ∀ sd, (step s st pending).stride = some sd → sd.consumed = none := by
  intro sd hsd
  have key : ∀ bs em, (stepRest st n bs em pending).stride = some sd → sd.consumed = none := by
    intro bs em h
    obtain ⟨sd', h1, _, _, h4⟩ := stepRest_stride st n bs em pending
    rw [h1] at h; cases h
    rw [h4, consider_nonmsg n.branches bs pending hb]; rfl
  cases step_cases s st pending with
  | nostride h => rw [h] at hsd; cases hsd
  | noaction n' hn' ha' h => rw [hn] at hn'; cases hn'; rw [h] at hsd; exact key _ _ hsd
  | ok n' a' hn' ha' hm he' h => rw [hn] at hn'; cases hn'; rw [h] at hsd; exact key _ _ hsd
  | errBranches n' a' e' hn' ha' hm he' h =>
    rw [hn] at hn'; cases hn'; rw [h] at hsd; exact key _ _ hsd
  | errNode n' a' e' hn' ha' hm he' h => rw [h] at hsd; cases hsd; rfl

/-- Without an action the branches are considered against the current bindings, and the step's
    target is exactly what `consider` decides. -/
theorem step_no_action (s : Spec) (st : State) (pending : Option V) (n : Node)
    (hc : s.compiled = true) (hn : findNode st.node s.nodes = some n)
    (ha : n.action = none) (hs : n.hasSource = false) :
    ∃ sd, (step s st pending).stride = some sd ∧ sd.emitted = [] ∧
      sd.to = (consider n.branches st.bs pending).1.map stateCopy ∧
      (step s st pending).err = (consider n.branches st.bs pending).2.2 := by
  rw [step_noaction s st _ n hc hn ha hs, stepRest_noaction _ _ _ _ _ ha]
  exact ⟨_, rfl, rfl, rfl, rfl⟩

/-- The action runs first and the bindings it returns replace the current ones: the branches are
    considered against the returned bindings `b'`; the step emits what the action emitted. -/
theorem step_action_first (s : Spec) (st : State) (pending : Option V) (n : Node) (a : ActionF)
    (b' : Bs) (em : List V)
    (hc : s.compiled = true) (hn : findNode st.node s.nodes = some n) (ha : n.action = some a)
    (hm : ∀ br, n.branches = some br → br.type ≠ "message")
    (hx : (execWrap a st.bs).exe = some (some b', em)) (he : (execWrap a st.bs).err = none) :
    ∃ sd, (step s st pending).stride = some sd ∧ sd.emitted = em ∧ sd.consumed = none ∧
      (∀ t, (consider n.branches (some b') pending).1 = some t → sd.to = some (stateCopy t)) ∧
      ((consider n.branches (some b') pending).1 = none →
        ∃ eb, sd.to = some { node := "error", bs := some eb } ∧
          lookup "error" eb = some (.str "Action node followed no branch") ∧
          lookup "lastNode" eb = some (.str st.node)) := by
  rw [step_action_ok s st pending n a hc hn ha hm he, stepRest_action _ _ _ _ _ a ha hm, hx]
  refine ⟨_, rfl, rfl, rfl, ?_, ?_⟩
  · intro t h
    simp only [exeOut, h]
  · intro h
    simp only [exeOut, h]
    refine ⟨_, rfl, ?_, ?_⟩
    · unfold noBranchBs
      rw [lookup_insertB_ne _ _ (by decide), lookup_insertB_ne _ _ (by decide), lookup_insertB_self]
    · unfold noBranchBs
      rw [lookup_insertB_ne _ _ (by decide), lookup_insertB_self]

/-- An action failure with error branches: the branches are considered against the *given*
    bindings extended by `actionError` and `error`. -/
theorem step_error_branches (s : Spec) (st : State) (pending : Option V) (n : Node) (a : ActionF)
    (e : String)
    (hc : s.compiled = true) (hn : findNode st.node s.nodes = some n) (ha : n.action = some a)
    (hm : ∀ br, n.branches = some br → br.type ≠ "message")
    (he : (execWrap a st.bs).err = some e) (hb : s.actionErrorBranches = true) :
    let eb := insertB "error" (.str e) (insertB "actionError" (.str e) (copyB st.bs))
    ∃ sd, (step s st pending).stride = some sd ∧
      (∀ t, (consider n.branches (some eb) pending).1 = some t → sd.to = some (stateCopy t)) := by
  intro eb
  rw [step_action_err_branches s st pending n a e hc hn ha hm he hb, stepRest_action _ _ _ _ _ a ha hm]
  refine ⟨_, rfl, ?_⟩
  intro t h
  have h' : (consider n.branches (some (actErrBs e st.bs)) pending).1 = some t := h
  simp only [h']

/-- An action failure with a designated error node: the step goes there with the error bound. -/
theorem step_error_node (s : Spec) (st : State) (pending : Option V) (n : Node) (a : ActionF)
    (e : String)
    (hc : s.compiled = true) (hn : findNode st.node s.nodes = some n) (ha : n.action = some a)
    (hm : ∀ br, n.branches = some br → br.type ≠ "message")
    (he : (execWrap a st.bs).err = some e) (hb : s.actionErrorBranches = false)
    (ht : s.actionErrorNode ≠ "") :
    ∃ sd, (step s st pending).stride = some sd ∧ (step s st pending).err = none ∧ sd.consumed = none ∧
      sd.to = some { node := s.actionErrorNode,
                     bs := some (insertB "error" (.str e) (insertB "actionError" (.str e) (copyB st.bs))) } := by
  rw [step_action_err_node s st pending n a e hc hn ha hm he hb ht]
  exact ⟨_, rfl, rfl, rfl, rfl⟩

/-- An action failure with no error settings: the step returns the error (Walk then goes to the
    error node, see C07). -/
theorem step_error_returned (s : Spec) (st : State) (pending : Option V) (n : Node) (a : ActionF)
    (e : String)
    (hc : s.compiled = true) (hn : findNode st.node s.nodes = some n) (ha : n.action = some a)
    (hm : ∀ br, n.branches = some br → br.type ≠ "message")
    (he : (execWrap a st.bs).err = some e) (hb : s.actionErrorBranches = false)
    (ht : s.actionErrorNode = "") :
    (step s st pending).stride = none ∧ (step s st pending).err = some (.action e) := by
  rw [step_action_err_ret s st pending n a e hc hn ha hm he hb ht]
  exact ⟨rfl, rfl⟩

end Sheens.C04
