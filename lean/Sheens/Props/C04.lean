import Sheens.ES

/-! Property C04 — theorems (in progress). -/
