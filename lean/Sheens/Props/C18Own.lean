import Sheens.Own
import Sheens.Proofs.OwnHeap
import Sheens.Proofs.Permanent

/-!
# Property C18 on the ownership layer — "whatever the code deleted, overwrote or returned instead"

The pure model's `permanent_preserved` quantifies over all action *functions*; a function cannot
modify its argument.  Native Go code can: `match.Bindings`' own helpers (`Remove`, `Extend`,
`DeleteExcept`) work on the very map they are given.  On the heap model (`Sheens/Own.lean`) an action
is an arbitrary heap transformer — **no contract at all** is assumed here: it may rewrite the map
it was given, any other map, and hand back whichever address it likes.  `FuncAction.Exec`
(`execWrapH`) reads the permanent bindings *before* the action runs and writes them into the map
that comes back, so they are there with their previous values.
-/

namespace Sheens.C18

open Own

/-- After any action or guard that completes and hands back a map — whatever it did to the heap —
    every binding of the given map whose name ends in '!' is in that map with its previous value. -/
theorem permanent_preserved_inplace (a : Act) (h : Heap) (x : Addr) (bs : Bs) (r : Addr) (em : List V)
    (k : String) (v : V)
    (hx : h.get x = some bs) (hnd : NoDupKeys bs)
    (hr : (execWrapH a (some x) h).2.exe = some (some r, em))
    (hk : isPermanent k = true) (hv : lookup k bs = some v) :
    ∃ b', (execWrapH a (some x) h).1.get r = some b' ∧ lookup k b' = some v := by
  unfold execWrapH at hr ⊢
  simp only [content, Option.bind, hx, copyB] at hr ⊢
  cases hrun : a.run h (some x) with
  | mk h1 out =>
    simp only [hrun] at hr ⊢
    cases hexe : out.exe with
    | none => simp [hexe] at hr
    | some p =>
      obtain ⟨oa, em'⟩ := p
      cases oa with
      | none => simp [hexe] at hr
      | some r' =>
        simp only [hexe] at hr ⊢
        have hrr : r' = r := by
          simp only [Option.some.injEq, Prod.mk.injEq] at hr
          exact hr.1
        subst hrr
        refine ⟨restore (permanentOf bs) ((h1.get r').getD []), ?_, ?_⟩
        · simp only [restoreH]
          exact Sheens.C06.get_set_self _ _ _
        · exact lookup_restore_permanent hnd hk hv

/-- non-vacuity: an action that empties the map it was given, in place, and hands it back -/
def wipeAct : Act :=
  { run := fun h arg =>
      match arg with
      | some x => (h.set x [], { exe := some (some x, []), err := none })
      | none => (h, { exe := none, err := none })
    pure := fun _ => { exe := some (some [], []), err := none } }

example :
    let h : Heap := { cells := [(0, [("keep!", .num 1), ("n", .num 2)])], next := 1 }
    ((execWrapH wipeAct (some 0) h).1.get 0) = some [("keep!", .num 1)] := by rfl

end Sheens.C18

#print axioms Sheens.C18.permanent_preserved_inplace
