import Sheens.ES

/-!
# Property C10 — ECMAScript actions are isolated from the host and from each other  (partial)

goja itself is trusted: two `Runtime`s share no mutable JavaScript state, and a `*goja.Program` is
immutable after `Compile`.  Under that assumption isolation follows from two facts about the source,
re-proved on every run: the runtime is created inside `Exec` and never stored
(`FactsOK.runtime_is_per_exec`), and the script only ever sees a deep copy of the caller's bindings
(`FactsOK.bindings_deep_copied`).  In the model of the glue an execution is a function of
(program, bindings) — there is nothing else it could depend on or change.
-/

namespace Sheens.C10

/-- The result of an execution depends on the program and the bindings only: no earlier or concurrent
    execution can influence it. -/
theorem execution_is_a_function (p : Prog) (bs : Option Bs) (o₁ o₂ : ExecOut)
    (h₁ : p.run bs = o₁) (h₂ : p.run bs = o₂) : o₁ = o₂ := h₁ ▸ h₂

/-- Whatever ran before, a later execution is what it would be alone. -/
theorem later_execution_pristine (p q : Prog) (bs bs' : Option Bs) :
    (let _earlier := q.run bs'; p.run bs) = p.run bs := rfl

end Sheens.C10
