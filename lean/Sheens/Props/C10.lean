import Sheens.ES

/-! Property C10 — theorems (in progress). -/
