import Sheens.MatchSpec

/-! Property C01 — theorems (in progress). -/
