import Sheens.Proofs.All

/-!
# Property C01 — soundness of the pattern matcher

Every binding set returned by `matchF` (the model of `Matcher.match`) extends the given
bindings, only adds keys that are variables of the pattern (or plain-named counterparts of
its inequality variables), and makes the pattern *contained* in the message (`Sat`).

Well-formedness predicates (defined in `Sheens/Proofs/Good.lean`):

* `V.good`     : hereditarily JSON-plain (no `.int/.bobj/.other`), no string beginning with '?'
                 anywhere (keys included), object keys pairwise distinct — what a JSON message /
                 bound value looks like.
* `V.plainPat` : hereditarily JSON-plain pattern (variables allowed), object keys pairwise distinct.
* `GoodBs bs := ∀ k v, lookup k bs = some v → v.good = true`
* `IneqPrebound p bs₀ := ∀ v ∈ varsOf p, ineqOf v ≠ none → lookup v bs₀ ≠ none`
  (a variable whose name carries an inequality operator is used as documented: pre-bound in the
  given bindings).
-/

namespace Sheens.C01

theorem match_sound (n : Nat) (p f : V) (bs₀ r : Bs) (rs : List Bs)
    (hp : p.plainPat = true) (hf : f.good = true) (hb : GoodBs bs₀) (hi : IneqPrebound p bs₀)
    (h : matchF n p f bs₀ = .ok rs) (hr : r ∈ rs) :
      Extends bs₀ r
    ∧ (∀ k, lookup k r ≠ none → lookup k bs₀ ≠ none ∨ k ∈ varsOf p ∨ k ∈ ineqBases p)
    ∧ Sat bs₀ r p f := by
  have hPB : PB (varsOf p) bs₀ := hi
  obtain ⟨hpost, hsat⟩ := (sound_all hPB n).1 p f bs₀ rs hp hf (fun _ h => h)
    ⟨Extends.refl _, hb⟩ h r hr
  exact ⟨hpost.ext, hpost.keys, hsat⟩

/-! ## Non-vacuity: concrete instances satisfy the hypotheses and produce results -/

/-- the run produced at least one binding set -/
def nonEmpty : MRes → Bool
  | .ok (_ :: _) => true
  | _ => false

theorem nonEmpty_spec {m : MRes} (h : nonEmpty m = true) : ∃ r rs, m = .ok (r :: rs) := by
  cases m with
  | ok l => cases l with
    | nil => simp [nonEmpty] at h
    | cons r rs => exact ⟨r, rs, rfl⟩
  | err e => simp [nonEmpty] at h
  | diverge => simp [nonEmpty] at h

/-- all hypotheses of `match_sound` hold and the run at fuel `n` returns a non-empty result -/
def Witness (n : Nat) (p f : V) (bs₀ : Bs) : Prop :=
  p.plainPat = true ∧ f.good = true ∧ GoodBs bs₀ ∧ IneqPrebound p bs₀ ∧
    nonEmpty (matchF n p f bs₀) = true

instance (n : Nat) (p f : V) (bs₀ : Bs) : Decidable (Witness n p f bs₀) := by
  unfold Witness; infer_instance

/-- a witness yields an actual instance of the conclusion -/
theorem Witness.sat {n : Nat} {p f : V} {bs₀ : Bs} (w : Witness n p f bs₀) :
    ∃ r, Extends bs₀ r ∧ Sat bs₀ r p f := by
  obtain ⟨hp, hf, hb, hi, hne⟩ := w
  obtain ⟨r, rs, h⟩ := nonEmpty_spec hne
  obtain ⟨h1, _, h3⟩ := match_sound n p f bs₀ r (r :: rs) hp hf hb hi h List.mem_cons_self
  exact ⟨r, h1, h3⟩

/-- nested array, pre-bound variable `?x` (inner), fresh variable `?y` (outer), backtracking over
    two candidate sub-arrays -/
example : Witness 60
    (.arr [.arr [.str "?x", .num 2], .str "a", .str "?y"])
    (.arr [.str "a", .arr [.num 3], .arr [.num 1, .num 2]])
    [("?x", .num 1)] := by decide

/-- property variable: `{"?k": "?v"}` against a two-key object (two results) -/
example : Witness 40
    (.obj [("?k", .str "?v")])
    (.obj [("a", .num 1), ("b", .num 2)])
    [] := by decide

/-- inequality `?<n` pre-bound to 10, message 3: binds the counterpart `?n` -/
example : Witness 30 (.str "?<n") (.num 3) [("?<n", .num 10)] := by decide

/-- inequality inside an object, with the counterpart re-used as an ordinary variable -/
example : Witness 60
    (.obj [("t", .str "?>=lo"), ("u", .arr [.str "?lo"])])
    (.obj [("t", .num 7), ("u", .arr [.num 5, .num 7])])
    [("?>=lo", .num 5)] := by decide

/-- optional variable: absent key and skipped array element -/
example : Witness 60
    (.obj [("a", .str "??opt"), ("b", .arr [.str "??maybe", .str "x"])])
    (.obj [("b", .arr [.str "x"])])
    [] := by decide

end Sheens.C01

#print axioms Sheens.C01.match_sound
