import Sheens.Serial

/-!
# C16, second sentence: concurrent requests are serialised, no update is lost

For **every** interleaving of the steps (acquire, read, compute, write, release) of any number
of threads: whenever the lock is free, the shared state is the result of running the requests
that have taken the lock so far one after the other, in the order in which they took it
(`serialised`); a request that has completed is in that order exactly once (`no_update_lost`,
`order_nodup`); between acquire and release at most one thread is under way
(`mutual_exclusion`).  The requests are arbitrary functions of the shared state, and their
execution is not atomic in the model — atomicity is what the theorem derives from the lock.

Tie to the source: facts `mcrew_write_under_lock` (each of `Process`, `AddMachine`, `RemMachine`
takes the crew lock once, defers the unlock and does its reads and writes inside it) and
`mcrew_write_before_memory`; probes `noLostUpdate`, `readIsSnapshot`.  Trusted: `sync.RWMutex`
is a lock.
-/

namespace Sheens.C16Serial

open Serial

variable {σ : Type}

@[simp] theorem upd_same {α : Type} (f : Nat → α) (i : Nat) (v : α) : upd f i v i = v := by simp [upd]
theorem upd_other {α : Type} (f : Nat → α) (i j : Nat) (v : α) (h : j ≠ i) : upd f i v j = f j := by simp [upd, h]

theorem seq_snoc (ops : Nat → σ → σ) (init : σ) (o : List Nat) (i : Nat) :
    seq ops init (o ++ [i]) = ops i (seq ops init o) := by simp [seq, List.foldl_append]

/-- what the thread holding the lock knows, by phase -/
def Phase (ops : Nat → σ → σ) (init : σ) (s : St σ) (i : Nat) (o' : List Nat) : Prop :=
  match s.pc i with
  | .acquired => s.shared = seq ops init o'
  | .read x => x = seq ops init o' ∧ s.shared = seq ops init o'
  | .computed x => x = ops i (seq ops init o')
  | .written => s.shared = ops i (seq ops init o')
  | _ => False

def Quiet (s : St σ) (j : Nat) : Prop := s.pc j = .idle ∨ s.pc j = .done

def Inv (ops : Nat → σ → σ) (init : σ) (s : St σ) : Prop :=
  s.order.Nodup ∧
  (∀ j, s.pc j = .idle ↔ j ∉ s.order) ∧
  (match s.lock with
   | none => (∀ j, Quiet s j) ∧ s.shared = seq ops init s.order
   | some i => (∀ j, j ≠ i → Quiet s j) ∧ ∃ o', s.order = o' ++ [i] ∧ Phase ops init s i o')

theorem inv_start (ops : Nat → σ → σ) (init : σ) : Inv ops init (start init) := by
  refine ⟨by simp [start], by simp [start], ?_⟩
  simp [start, Quiet, seq]

/-- a thread that is under way holds the lock -/
theorem holder_of {ops : Nat → σ → σ} {init : σ} {s : St σ} (h : Inv ops init s) (i : Nat)
    (hi : s.pc i ≠ .idle) (hd : s.pc i ≠ .done) :
    s.lock = some i ∧ (∀ j, j ≠ i → Quiet s j) ∧ ∃ o', s.order = o' ++ [i] ∧ Phase ops init s i o' := by
  obtain ⟨_, _, h3⟩ := h
  cases hl : s.lock with
  | none =>
    rw [hl] at h3
    rcases h3.1 i with h | h
    · exact absurd h hi
    · exact absurd h hd
  | some k =>
    rw [hl] at h3
    by_cases hk : i = k
    · subst hk; exact ⟨rfl, h3.1, h3.2⟩
    · rcases h3.1 i hk with h | h
      · exact absurd h hi
      · exact absurd h hd

theorem quiet_upd {s : St σ} {i j : Nat} {v : PC σ} (hj : j ≠ i) (h : Quiet s j) (t : St σ)
    (ht : t.pc = upd s.pc i v) : Quiet t j := by
  unfold Quiet at *; rw [ht, upd_other _ _ _ _ hj]; exact h

theorem inv_step (ops : Nat → σ → σ) (init : σ) (s t : St σ) (h : Inv ops init s) (st : Step ops s t) :
    Inv ops init t := by
  cases st with
  | acquire i hpc hlock =>
    obtain ⟨h1, h2, h3⟩ := h
    rw [hlock] at h3
    have hni : i ∉ s.order := (h2 i).mp hpc
    refine ⟨?_, ?_, ?_⟩
    · simp [List.nodup_append, h1, hni]
      intro a ha hb; subst hb; exact absurd ha hni
    · intro j
      by_cases hj : j = i
      · subst hj; simp
      · simp [upd_other _ _ _ _ hj, h2 j, hj]
    · refine ⟨fun j hj => ?_, s.order, rfl, ?_⟩
      · exact quiet_upd hj (h3.1 j) _ rfl
      · simp [Phase, h3.2]
  | read i hpc =>
    obtain ⟨hl, hq, o', ho, hp⟩ := holder_of h i (by simp [hpc]) (by simp [hpc])
    obtain ⟨h1, h2, _⟩ := h
    refine ⟨h1, ?_, ?_⟩
    · intro j
      by_cases hj : j = i
      · subst hj; simp [ho]
      · simp [upd_other _ _ _ _ hj, h2 j]
    · simp only [hl]
      refine ⟨fun j hj => quiet_upd hj (hq j hj) _ rfl, o', ho, ?_⟩
      simp only [Phase, hpc] at hp
      simp [Phase, hp]
  | compute i x hpc =>
    obtain ⟨hl, hq, o', ho, hp⟩ := holder_of h i (by simp [hpc]) (by simp [hpc])
    obtain ⟨h1, h2, _⟩ := h
    refine ⟨h1, ?_, ?_⟩
    · intro j
      by_cases hj : j = i
      · subst hj; simp [ho]
      · simp [upd_other _ _ _ _ hj, h2 j]
    · simp only [hl]
      refine ⟨fun j hj => quiet_upd hj (hq j hj) _ rfl, o', ho, ?_⟩
      simp only [Phase, hpc] at hp
      simp [Phase, hp.1]
  | write i x hpc =>
    obtain ⟨hl, hq, o', ho, hp⟩ := holder_of h i (by simp [hpc]) (by simp [hpc])
    obtain ⟨h1, h2, _⟩ := h
    refine ⟨h1, ?_, ?_⟩
    · intro j
      by_cases hj : j = i
      · subst hj; simp [ho]
      · simp [upd_other _ _ _ _ hj, h2 j]
    · simp only [hl]
      refine ⟨fun j hj => quiet_upd hj (hq j hj) _ rfl, o', ho, ?_⟩
      simp only [Phase, hpc] at hp
      simp [Phase, hp]
  | release i hpc =>
    obtain ⟨hl, hq, o', ho, hp⟩ := holder_of h i (by simp [hpc]) (by simp [hpc])
    obtain ⟨h1, h2, _⟩ := h
    refine ⟨h1, ?_, ?_⟩
    · intro j
      by_cases hj : j = i
      · subst hj; simp [ho]
      · simp [upd_other _ _ _ _ hj, h2 j]
    · refine ⟨fun j => ?_, ?_⟩
      · by_cases hj : j = i
        · subst hj; right; simp
        · exact quiet_upd hj (hq j hj) _ rfl
      · simp only [Phase, hpc] at hp
        show s.shared = seq ops init s.order
        rw [ho, seq_snoc]; exact hp

theorem reachable_inv (ops : Nat → σ → σ) (init : σ) (s : St σ) (h : Reachable ops init s) : Inv ops init s := by
  induction h with
  | start => exact inv_start ops init
  | step _ st ih => exact inv_step ops init _ _ ih st

/-- **Serialised.**  In every reachable state in which the lock is free, the shared state is the
    sequential composition of the requests that have run, in the order in which they took the
    lock — whatever the interleaving of their steps was. -/
theorem serialised (ops : Nat → σ → σ) (init : σ) (s : St σ) (h : Reachable ops init s) (hl : s.lock = none) :
    s.shared = seq ops init s.order := by
  have := (reachable_inv ops init s h).2.2
  rw [hl] at this; exact this.2

/-- each request takes the lock at most once -/
theorem order_nodup (ops : Nat → σ → σ) (init : σ) (s : St σ) (h : Reachable ops init s) : s.order.Nodup :=
  (reachable_inv ops init s h).1

/-- **No update is lost.**  A request that has completed is part of that sequential order. -/
theorem no_update_lost (ops : Nat → σ → σ) (init : σ) (s : St σ) (h : Reachable ops init s) (j : Nat)
    (hd : s.pc j = .done) : j ∈ s.order := by
  have h2 := (reachable_inv ops init s h).2.1 j
  by_cases hm : j ∈ s.order
  · exact hm
  · have := h2.mpr hm; rw [hd] at this; cases this

/-- a request that has not started is not part of it -/
theorem not_started_not_counted (ops : Nat → σ → σ) (init : σ) (s : St σ) (h : Reachable ops init s) (j : Nat)
    (hi : s.pc j = .idle) : j ∉ s.order :=
  ((reachable_inv ops init s h).2.1 j).mp hi

/-- **Mutual exclusion.**  Two threads are never both between acquire and release. -/
theorem mutual_exclusion (ops : Nat → σ → σ) (init : σ) (s : St σ) (h : Reachable ops init s) (i j : Nat)
    (hi : ¬ Quiet s i) (hj : ¬ Quiet s j) : i = j := by
  have hinv := reachable_inv ops init s h
  have ⟨hli, _⟩ := holder_of hinv i (fun e => hi (Or.inl e)) (fun e => hi (Or.inr e))
  have ⟨hlj, _⟩ := holder_of hinv j (fun e => hj (Or.inl e)) (fun e => hj (Or.inr e))
  rw [hli] at hlj; exact Option.some.inj hlj

/-- when every one of the threads `ts` has completed and the lock is free, the shared state is the
    result of running exactly their requests (and those of any other completed thread) in some order
    without repetition -/
theorem all_done_is_a_sequential_run (ops : Nat → σ → σ) (init : σ) (s : St σ) (h : Reachable ops init s)
    (ts : List Nat) (hd : ∀ j ∈ ts, s.pc j = .done) (hl : s.lock = none) :
    ∃ order : List Nat, order.Nodup ∧ (∀ j ∈ ts, j ∈ order) ∧ s.shared = seq ops init order :=
  ⟨s.order, order_nodup ops init s h, fun j hj => no_update_lost ops init s h j (hd j hj), serialised ops init s h hl⟩

/-! Non-vacuity: two increments whose steps interleave as far as the lock lets them (thread 1
acquires first; thread 0 can do nothing until the release) end with both counted. -/

def incOps : Nat → Nat → Nat := fun _ n => n + 1

example : ∃ s : St Nat, Reachable incOps 0 s ∧ s.lock = none ∧ s.order = [1, 0] ∧ s.shared = 2 ∧
    s.pc 0 = .done ∧ s.pc 1 = .done := by
  have r0 : Reachable incOps 0 (start 0) := .start
  have r1 := Reachable.step r0 (Step.acquire _ 1 rfl rfl)
  have r2 := Reachable.step r1 (Step.read _ 1 rfl)
  have r3 := Reachable.step r2 (Step.compute _ 1 0 rfl)
  have r4 := Reachable.step r3 (Step.write _ 1 1 rfl)
  have r5 := Reachable.step r4 (Step.release _ 1 rfl)
  have r6 := Reachable.step r5 (Step.acquire _ 0 rfl rfl)
  have r7 := Reachable.step r6 (Step.read _ 0 rfl)
  have r8 := Reachable.step r7 (Step.compute _ 0 1 rfl)
  have r9 := Reachable.step r8 (Step.write _ 0 2 rfl)
  have r10 := Reachable.step r9 (Step.release _ 0 rfl)
  exact ⟨_, r10, rfl, rfl, rfl, rfl, rfl⟩

end Sheens.C16Serial
