import Sheens.Gen.Facts

/-!
# Tie B: the regenerated source facts are the ones the models assume

`Sheens/Gen/Facts.lean` is rewritten from /repo's working tree by `go/factgen` on every check
run; the theorems below are re-checked by `decide` against what the code says *now*.  A theorem
that stops checking names the structural assumption the hand-written model no longer shares with
the source.  (Textual expectations are deliberately exact: a harmless rewrite can break them too,
in which case the check reports that the obligation no longer checks and searches for a failing
input before concluding anything.)
-/

namespace FactsOK
open Facts

def stmt (k : String) : List String := (stmts.filter (fun p => p.1 == k)).map (·.2)
def const (k : String) : List String := (consts.filter (fun p => p.1 == k)).map (·.2)
def seq (k : String) : List String := ((seqs.filter (fun p => p.1 == k)).map (·.2)).flatten
def writesOf (fns : List String) : List Write := writes.filter (fun w => fns.contains w.fn)
def isMutatorCall (w : Write) : Bool :=
  w.kind == "call:Extend" || w.kind == "call:Extendm" || w.kind == "call:Remove" || w.kind == "call:DeleteExcept"

/-! ## match/match.go (C01, C03) -/

def matcherFns : List String :=
  ["Matcher.Match", "Matcher.Matches", "Matcher.match", "Matcher.mapcatMatch", "Matcher.arraycatMatch",
   "Matcher.matchWithBindingss", "Matcher.getVariable", "Matcher.inequal", "Matcher.checkForBadPropertyVariables",
   "combine", "copyBindingss", "copyMap", "fudge", "Match"]

/-- C03: `Match` hands the recursive matcher a copy of the bindings it was given. -/
theorem match_copies_first :
    stmt "Matcher.Match.return" = ["return m.match(pattern, fact, bindings.Copy())"] := by decide

/-- C03: `copyBindingss` copies every map (results of different branches never share a map). -/
theorem copyBindingss_copies : stmt "copyBindingss.append" = ["append(acc, bs.Copy())"] := by decide

/-- C03: backtracking and the property-variable gather work on copies; sub-matches go through
    `Match` (which copies). -/
theorem matcher_branches_copy :
    seq "Matcher.arraycatMatch" = ["matchWithBindingss", "copyBindingss", "copyMap", "delete"] ∧
    seq "Matcher.mapcatMatch" = ["checkForBadPropertyVariables", "copyBindingss", "matchWithBindingss",
                                 "matchWithBindingss", "matchWithBindingss"] ∧
    seq "Matcher.matchWithBindingss" = ["Match"] := by decide

/-- C03/C12: no write site of the matcher is rooted in the pattern, the message or the matcher
    itself: every write goes to a local, or to the bindings parameter (which is `Match`'s copy). -/
theorem matcher_writes_only_locals_and_bindings :
    (writesOf matcherFns).all (fun w =>
      w.rootKind == "local" || (w.rootKind == "param" && (w.root == "bs" || w.root == "bindings"))) = true := by
  decide

/-- C01: the three switches of the default matcher are on. -/
theorem matcher_switches :
    const "DefaultMatcher" =
      ["&Matcher{ AllowPropertyVariables: true, CheckForBadPropertyVariables: true, Inequalities: true, }"] := by
  decide

/-- C01: operator scan order and the five relations of `inequal`. -/
theorem ineq_ops :
    stmt "Matcher.inequal.ops" = ["[]string{\"<=\", \">=\", \"!=\", \">\", \"<\"}"] ∧
    stmt "Matcher.inequal.case \"<\"" = ["a < b"] ∧ stmt "Matcher.inequal.case \"<=\"" = ["a <= b"] ∧
    stmt "Matcher.inequal.case \">\"" = ["a > b"] ∧ stmt "Matcher.inequal.case \">=\"" = ["a >= b"] ∧
    stmt "Matcher.inequal.case \"!=\"" = ["a != b"] := by decide

/-- C01/C18/C04: the prefixes and suffixes the models hard-code. -/
theorem name_conventions :
    const "Matcher.IsVariable" = ["return strings.HasPrefix(s, \"?\")"] ∧
    const "Matcher.IsOptionalVariable" = ["return strings.HasPrefix(s, \"??\") ; return false"] ∧
    const "Matcher.IsAnonymousVariable" = ["return s == \"?\""] ∧
    const "isPermanent" = ["return strings.HasSuffix(p, \"!\")"] ∧
    const "IsBranchTargetVariable" = ["return false ; return s[0] == '@'"] := by decide

/-! ## core/step.go, core/actions.go (C04–C08, C12, C18) -/

def engineFns : List String :=
  ["Spec.Step", "Spec.Walk", "Branches.consider", "Branch.try", "Branch.target", "FuncAction.Exec"]

/-- C06/C12: `Step`, `Walk`, `consider`, `try`, `target`, `Exec` have no write site rooted in a
    parameter (state, messages, control, props) or in the receiver (spec, branches, branch, action):
    every write goes to a local. -/
theorem engine_writes_only_locals :
    (writesOf engineFns).all (fun w => w.rootKind == "local" || w.rootKind == "call") = true := by decide

/-- C06: every mutator call on bindings in `Step`/`Walk` (`Extend`, `Extendm`, …) is on a map that
    is fresh at that point — the receiver is a `Copy()` or was just assigned one. -/
theorem engine_mutators_on_fresh_maps :
    ((writesOf engineFns).filter isMutatorCall).all (fun w => w.fresh) = true := by decide

/-- C06: the states a step returns are copies or fresh literals over copied bindings. -/
theorem step_returns_copies :
    stmt "Spec.Step.stride.From" = ["st.Copy()"] ∧
    (stmt "Spec.Step.stride.To").all (fun s =>
      s == "st.Copy()" || s == "&State{ NodeName: s.ActionErrorNode, Bs: bs.Copy(), }" ||
      s == "&State{ NodeName: \"error\", Bs: bs, }") = true ∧
    stmt "Spec.Walk.st" = ["stride.To.Copy()"] := by decide

/-- C06: the allocation and write sites of `Step`, in source order, are the ones the ownership model
    (`Sheens/Own.lean`, `stepH`) goes through: `From = st.Copy()`; the action; `NewBindings()` for nil
    bindings; on an action error `bs.Copy()` and two `Extend`s, then `bs.Copy()` for the error node's
    state; `consider`; `To = st.Copy()`; and for "followed no branch" `bs.Copy().Extendm(…,
    givenState.Bs.Copy())`. -/
theorem step_copy_sites :
    seq "Spec.Step.ownership" =
      ["Copy", "Exec", "NewBindings", "Copy", "Extend", "Extend", "Copy", "consider", "Copy",
       "Extendm", "Copy", "Copy"] := by decide

/-- C06: … and those of `Walk` (`walkStrideH`, `walkLoopH`): `Step`; for a nil stride `NewStride()` and
    `From = st.Copy()`; on a step error `st.Bs.Copy().Extendm(…, st.Bs.Copy())`; and between
    iterations `st = stride.To.Copy()`. -/
theorem walk_copy_sites :
    seq "Spec.Walk.ownership" = ["Step", "NewStride", "Copy", "Extendm", "Copy", "Copy", "Copy"] := by decide

/-- C05: the loop bound, the pop and the remainder reports of `Walk`. -/
theorem walk_accounting_sites :
    stmt "Spec.Walk.for" = ["i < c.Limit"] ∧ stmt "Spec.Walk.pendings" = ["pendings[1:]"] ∧
    stmt "Spec.Walk.walked.Remaining" = ["pendings", "nil", "nil", "pendings"] := by decide

/-- C07: `Walk` applies the default control before it reads the limit. -/
theorem walk_defaults_nil_control :
    stmt "Spec.Walk.first" = ["if c == nil { c = DefaultControl }"] ∧
    const "DefaultControl" = ["&Control{ Limit: 100, }"] := by decide

/-- C07/C18: the write-back of the permanent bindings is guarded against a nil execution and nil
    bindings. -/
theorem exec_writeback_guarded :
    ((writesOf ["FuncAction.Exec"]).filter (fun w => w.path == "Bs.[]")).map (·.guard) =
      ["Exp_PermanentBindings && exe != nil && exe.Bs != nil"] := by decide

/-- C04: branches are considered in their listed order; C04/C18: the experiment switches are on and
    the default names are the ones the model uses. -/
theorem engine_constants :
    stmt "Branches.consider.range" = ["b.Branches"] ∧
    const "Exp_BranchTargetVariables" = ["true"] ∧ const "Exp_PermanentBindings" = ["true"] ∧
    const "DefaultBranchType" = ["\"bindings\""] ∧ const "DefaultErrorNodeName" = ["\"error\""] := by decide

/-- C08: `try` runs the matcher, then the guard, then computes the target — and never adds a
    guard's emitted events to anything. -/
theorem try_adds_no_guard_events : seq "Branch.try" = ["Match", "Exec", "target"] := by decide

/-! ## interpreters/ecmascript/ecmascript.go (C08, C10, C11) -/

set_option maxRecDepth 8000 in
/-- C08/C11: the value is exported and `cancel()` called right after `RunProgram`, and both run-time
    error exits return a nil execution (so the emission buffer is dropped); an interrupt is reported
    as `Interrupted`. -/
theorem es_error_exits_nil_exe :
    stmt "Interpreter.Exec.afterRun" =
      ["var x interface{} ;; if err == nil { x, err = export(v) } ;; cancel() ;; if err != nil { if _, is := err.(*goja.InterruptedError); is { return nil, Interrupted } return nil, err }"] := by
  decide

set_option maxRecDepth 8000 in
/-- C07/C11: the program's value is converted to Go data under a `recover` (a getter of the returned
    object is script code: it can throw or be interrupted), before the watcher is released. -/
theorem es_export_recovers :
    stmt "ecmascript.export" =
      ["{ defer func() { if r := recover(); r != nil { if e, is := r.(error); is { err = e } else { err = fmt.Errorf(\"%s\", r) } } }() return v.Export(), nil }"] := by
  decide

/-- C08: every return of `Exec` that follows the start of the run and carries an error hands back a
    nil execution — there is no error exit through which the emission buffer could leave. -/
theorem es_every_error_exit_nil_exe :
    (stmt "Interpreter.Exec.errorReturnsAfterRun").all (· == "nil") = true ∧
    (stmt "Interpreter.Exec.errorReturnsAfterRun").length ≥ 5 := by decide

/-- C11: the watcher goroutine waits for the derived context and interrupts the runtime. -/
theorem es_watcher :
    stmt "Interpreter.Exec.watcher" = ["<-ictx.Done() ;; o.Interrupt(InterruptedMessage)"] ∧
    const "InterruptedMessage" = ["\"RuntimeError: timeout\""] := by decide

/-- C10: one runtime per execution: `goja.New()` is called once inside `Exec`, bound to a local that
    is never stored, and neither the package nor the interpreter struct holds a runtime or a pool. -/
theorem runtime_is_per_exec :
    stmt "Interpreter.Exec.gojaNew" = ["calls=1 local=true stored=0"] ∧
    stmt "ecmascript.runtimeHolders" = ["0"] := by decide

/-- C10: the script sees a deep copy of the caller's bindings. -/
theorem bindings_deep_copied :
    stmt "Interpreter.Exec.deepCopy" = ["deepCopy(bs)"] ∧
    stmt "Interpreter.Exec.envBindings" = ["bsCopy"] := by decide

/-! ## core/specter.go (C12) -/

/-- C12: the updatable spec is read and written with single atomic pointer operations. -/
theorem specter_atomic :
    seq "UpdatableSpec.Spec" = ["LoadPointer"] ∧ seq "UpdatableSpec.SetSpec" = ["StorePointer"] := by decide

/-! ## cmd/mcrew/service.go (C16), both timer services (C17), sio/crew.go (C14) -/

/-- C16: `Process`, `AddMachine` and `RemMachine` each take the crew lock once, hold it to the end
    (deferred unlock) and write to storage inside it … -/
theorem mcrew_write_under_lock :
    seq "Service.AddMachine" = ["Lock", "defer Unlock", "WriteState"] ∧
    seq "Service.RemMachine" = ["Lock", "defer Unlock", "WriteState"] ∧
    seq "Service.Process" = ["Route", "Lock", "defer Unlock", "GetSpec", "Walk", "WriteState", "go Process"] := by decide

/-- C16: … and change the in-memory crew only after the write. -/
theorem mcrew_write_before_memory :
    seq "Service.AddMachine.order" = ["write", "mem:c.Machines[id]"] ∧
    seq "Service.RemMachine.order" = ["write", "mem:delete"] ∧
    seq "Service.Process.order" = ["write", "mem:c.Machines[mid].State"] := by decide

/-- C14: each emitted message spawns one `Process` (mcrew); the sio crew appends emitted messages to
    the end of the queue and pops from the front; ordinary routing skips the two service machines. -/
theorem routing_sites :
    stmt "Crew.ProcessMsg.pending" =
      ["make([]interface{}, 0, 32)", "append(pending, msg)", "pending[1:]", "append(pending, msg)"] ∧
    stmt "Crew.allMachines.case" = ["TimersMachine", "CaptainMachine"] := by decide

/-- C17: a firing timer decides under the lock, by entry identity, whether it still stands, and
    frees its id before emitting (both implementations); sio's `add` on a pending id cancels it and
    goes on to create the new timer. -/
theorem timers_fire_by_identity :
    (stmt "mcrew.Timers.fire.guard").contains "!have || current != te" = true ∧
    stmt "sio.TimerEntry.fire.guard" = ["!have || current != te"] ∧
    seq "mcrew.Timers.Add" = ["Lock", "defer Unlock", "Rem", "NewTimer", "Lock", "Unlock", "delete", "Unlock", "emit"] ∧
    seq "sio.TimerEntry.run" = ["Lock", "Unlock", "delete", "Unlock", "Emitter", "Lock", "changed", "Unlock"] ∧
    seq "sio.Timers.add" = ["cancel", "changed", "go run"] := by decide

/-! ## hidden state: package-level variables and unexported struct fields (C03, C06, C10, C12) -/

/-- C03: the matcher's package holds no state besides the default matcher's three switches, and no
    type of the package has an unexported field: nothing can be remembered between two calls. -/
theorem match_no_hidden_state :
    seq "pkgvars:match" = ["DefaultMatcher"] ∧ seq "hiddenfields:match" = [] := by decide

/-- C06/C12: the package-level variables of `core` are the constants, defaults and generated enum
    tables the models know, and the only unexported fields are the native action's canned results,
    the spec's `compiled` flag, the embedded event records and the updatable spec's pointer. -/
theorem core_no_hidden_state :
    seq "pkgvars:core" =
      ["DefaultBranchType", "DefaultControl", "DefaultErrorNodeName", "DefaultInterpreters", "DefaultPatternParser",
       "EmittedMessagesInitialCap", "Exp_BranchTargetVariables", "Exp_PermanentBindings", "InterpreterNotFound",
       "TooManyBindingss", "TracesInitialCap", "_StopReasonNameToValue", "_StopReasonValueToName",
       "_StopReason_index", "alphabet", "defaultErrorNode"] ∧
    seq "hiddenfields:core" =
      ["Execution.:*Events", "FuncAction.binds:[]Bindings", "FuncAction.emits:[]interface{}", "Spec.compiled:bool",
       "Stride.:*Events", "UpdatableSpec.spec:unsafe.Pointer"] := by decide

/-- C10: the ECMAScript interpreter's package holds three constants and its types no unexported
    field (no runtime, pool or cache survives an execution). -/
theorem es_no_hidden_state :
    seq "pkgvars:interpreters/ecmascript" = ["IgnoreExit", "Interrupted", "InterruptedMessage"] ∧
    seq "hiddenfields:interpreters/ecmascript" = [] := by decide

/-! ## decision skeletons of functions modelled by hand (C13, C14, C15, C19, C20) -/

/-- C19: the decision skeleton of `Session.Run` — every `if`, `range` and `switch` in source order, function
    literals included — is the one the model `Expect.lean` was written from: diagnostics cleared and
    outstanding outputs counted per step, outputs with a recorded match skipped, a match is `0 < len(bss)`,
    a guard rejects with nil bindings, an inverted match fails, the step ends at `need == 0`. -/
theorem expect_run_skeleton :
    seq "skeleton:expect.Session.Run" =
      ["if dir != \"\"", "if err != nil", "if err != nil", "if err != nil", "if err != nil", "if err != nil",
       "if err != nil", "if err != nil", "if err == io.EOF", "if err != nil", "if s.ShowStderr",
       "range s.IOs", "if iop.Timeout == 0", "if 0 < iop.Timeout", "range iop.OutputSet",
       "range iop.OutputSet", "if !o.Inverted", "if err != nil", "if s.ShowStdout", "if err != nil",
       "range iop.OutputSet", "if output.Bindingss != nil", "if s.ParsePatterns", "if err != nil",
       "if err != nil", "if err != nil", "if 0 < len(bss)", "if 1 < len(bss)",
       "if output.GuardSource != nil", "if err != nil", "if output.Guard != nil", "if err != nil",
       "if exe.Bs == nil", "if 0 < len(bss)", "if output.Inverted", "if need == 0", "if timer != nil",
       "if err == nil", "range iop.Inputs", "if 0 < i", "if s.ShowStdin", "if err != nil", "if err != nil",
       "if err == nil", "switch err", "case happy", "if want <= happies", "if happies < want",
       "if err != nil", "if err != nil"] := by decide

/-- C15: the decision skeleton of `GetChanged` (net changes; deletion wins; a change identical to the one
    reported before is suppressed) … -/
theorem crew_changes_skeleton :
    seq "skeleton:sio.Crew.GetChanged" =
      ["range c.changed", "if mid == CaptainMachine", "if change.Deleted", "if !have",
       "if change.State != nil", "if change.SpecSrc != nil", "range changed", "if ch.Deleted",
       "if err != nil", "if have", "if current == previous"] := by decide

/-- C15: … of `SetMachine` … -/
theorem crew_setmachine_skeleton :
    seq "skeleton:sio.Crew.SetMachine" =
      ["if !have", "if state != nil", "if src != nil", "if state != nil", "switch mid", "case TimersMachine",
       "if m.Specter == nil", "if err != nil", "if state == nil", "if have", "if err != nil",
       "if err != nil", "case CaptainMachine", "if err != nil", "if src != nil", "if err != nil"] := by decide

/-- C14/C15: … and of `ProcessMsg`. -/
theorem crew_processmsg_skeleton :
    seq "skeleton:sio.Crew.ProcessMsg" =
      ["for 0 < len(pending)", "if is", "if err != nil", "range walkeds", "if is", "if has",
       "if 0 < len(emitted)", "if err != nil"] := by decide

/-- C13/C07: the decision skeleton of `Compile` (boot/toob sources, error node, null nodes, action sources,
    the three branching types, null branches, guards) … -/
theorem compile_skeleton :
    seq "skeleton:core.Spec.Compile" =
      ["if err != nil", "if spec.BootSource != nil && (force || spec.Boot == nil)", "if err != nil",
       "if spec.ToobSource != nil && (force || spec.Toob == nil)", "if err != nil",
       "if spec.ErrorNode == \"\"", "if spec.Nodes == nil", "if !have && !spec.NoAutoErrorNode",
       "range spec.Nodes", "if n == nil", "if n.ActionSource != nil && (force || n.Action == nil)",
       "if err != nil", "if is", "if n.Branches == nil", "switch n.Branches.Type", "case \"\"",
       "case \"message\"", "case \"bindings\"", "range n.Branches.Branches", "if b == nil", "if err != nil",
       "if err != nil", "if b.GuardSource != nil && (force || b.Guard == nil)", "if err != nil"] := by decide

/-- C13: … and of `ParsePatterns`. -/
theorem parsepatterns_skeleton :
    seq "skeleton:core.Spec.ParsePatterns" =
      ["if spec.PatternParser == nil", "if spec.Nodes == nil", "range spec.Nodes",
       "if n == nil || n.Branches == nil", "range n.Branches.Branches", "if b == nil", "if err != nil",
       "if err != nil"] := by decide

/-- C20: the decision skeleton of `Analyze`. -/
theorem analyze_skeleton :
    seq "skeleton:tools.Analyze" =
      ["range s.Nodes", "if n.Action != nil || n.ActionSource != nil", "if n.ActionSource != nil",
       "if n.Branches == nil || len(n.Branches.Branches) == 0", "if n.Branches != nil",
       "range n.Branches.Branches", "if b.Target == \"\"", "if core.IsBranchTargetVariable(b.Target)",
       "if !have", "if b.Guard != nil || b.GuardSource != nil", "if b.GuardSource != nil"] := by decide

end FactsOK
