import Sheens.ES

/-!
# Property C06 — the engine holds no state

In the model a step and a walk are *functions* of (spec, state, messages, limit, breakpoints):
repeating a call with equal inputs yields an equal result, and nothing a call does can leak into the
next one — there is no other state.  That the Go code is such a function — that it writes into no
map or structure it was given and hands back no map it shares with its inputs — is below the level of
a pure model; it is decided by the regenerated source facts, which are theorems over what the source
says on this run:

* `FactsOK.engine_writes_only_locals`: no write site of `Step/Walk/consider/try/target/Exec` is
  rooted in a parameter (state, messages, control, props) or the receiver (spec, branch, action);
* `FactsOK.engine_mutators_on_fresh_maps`: every `Extend/Extendm` there is on a `Copy()`;
* `FactsOK.step_returns_copies`: the states a step returns are copies or literals over copies;
* `FactsOK.match_copies_first`: the matcher works on a copy of the bindings it is given;

and by the snapshot / pointer-identity probes of the correspondence run.  The ownership layer planned
in the first design (a heap model with frame theorems) was not built.
-/

namespace Sheens.C06

/-- Repeating a step with equal inputs yields an equal result. -/
theorem step_repeatable (s : Spec) (st : State) (pending : Option V) (o₁ o₂ : StepOut)
    (h₁ : step s st pending = o₁) (h₂ : step s st pending = o₂) : o₁ = o₂ := h₁ ▸ h₂

/-- Repeating a walk with equal inputs yields an equal result: a host may discard a result and retry,
    or process the same message against many machines, without any effect leaking. -/
theorem walk_repeatable (s : Spec) (st : State) (msgs : List V) (l : Option Int) (bp : State → Bool)
    (w₁ w₂ : Walked) (h₁ : walk s st msgs l bp = w₁) (h₂ : walk s st msgs l bp = w₂) : w₁ = w₂ := h₁ ▸ h₂

/-- A discarded attempt leaves no trace: the result of a later call does not depend on any earlier
    call having been made (calls have no effect but their result). -/
theorem discarded_attempt_leaves_no_trace (s : Spec) (st st' : State) (msgs msgs' : List V)
    (l l' : Option Int) (bp : State → Bool) :
    (let _discarded := walk s st' msgs' l' bp; walk s st msgs l bp) = walk s st msgs l bp := rfl

end Sheens.C06
