import Sheens.ES

/-! Property C06 — theorems (in progress). -/
