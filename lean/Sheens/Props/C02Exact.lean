import Sheens.Props.C02
import Sheens.Proofs.ExactAll

/-!
# Property C02, second sentence — for a plain linear pattern the returned sets are exactly the embeddings

"For a pattern whose variables are plain (not optional, not inequality), each occur once and are not
pre-bound, the returned sets are exactly the embeddings of the pattern into the message."

One direction is `match_complete_partial` / `match_complete_binds` (every embedding is returned).
This file proves the other: every returned set *is* an embedding (`Emb`, exact at variable
positions) and binds exactly the pattern's variables.

The proof of `match_exact_sound` is the simultaneous induction of `Sheens/Proofs/Exact*.lean`
(`Sheens.Exact.exact_sound`): started from the empty bindings on a linear pattern, every variable
position is reached with that variable still unbound, so the matcher conses `(v, message value)`;
`matchBound`, `inequal` and the optional fall-backs are never taken.
-/

namespace Sheens.C02

/-- every variable (other than the anonymous one) occurs at most once -/
def Linear (p : V) : Prop := ((varsOf p).filter (fun v => !isAnon v)).Nodup

/-- the variables are plain: neither optional nor inequality-named -/
def PlainVars (p : V) : Prop := ∀ v ∈ varsOf p, isOptVar (.str v) = false ∧ ineqOf v = none

/-- Every returned set is an embedding and binds only the pattern's variables. -/
theorem match_exact_sound (n : Nat) (p f : V) (rs : List Bs) (r : Bs)
    (hp : p.plainPat = true) (hf : f.good = true) (hl : Linear p) (hv : PlainVars p)
    (h : matchF n p f [] = .ok rs) (hr : r ∈ rs) :
    Emb [] r p f ∧ (∀ k, lookup k r ≠ none → k ∈ varsOf p) := by
  obtain ⟨hemb, hkeys⟩ := Sheens.Exact.exact_sound n p f rs r hp hf hl hv h hr
  exact ⟨hemb, fun k hk => (hkeys k hk).1⟩

/-- a little more: the anonymous variable is never bound -/
theorem match_exact_sound_keys (n : Nat) (p f : V) (rs : List Bs) (r : Bs)
    (hp : p.plainPat = true) (hf : f.good = true) (hl : Linear p) (hv : PlainVars p)
    (h : matchF n p f [] = .ok rs) (hr : r ∈ rs) :
    ∀ k, lookup k r ≠ none → k ∈ varsOf p ∧ isAnon k = false :=
  (Sheens.Exact.exact_sound n p f rs r hp hf hl hv h hr).2

/-- in a linear pattern a non-anonymous variable occurs at most once -/
theorem occurrences_le_one {p : V} (hl : Linear p) {v : String} (hn : isAnon v = false) :
    occurrences v p ≤ 1 := by
  unfold occurrences
  have h1 : (varsOf p).filter (· == v) =
      ((varsOf p).filter (fun a => !isAnon a)).filter (· == v) := by
    rw [List.filter_filter]
    apply List.filter_congr
    intro a _
    by_cases h : a = v
    · subst h; simp [hn]
    · simp [h]
  rw [h1, ← List.count_eq_length_filter]
  exact List.nodup_iff_count.mp hl v

/-- Exactly the embeddings: an assignment `σ` whose domain is the pattern's (non-anonymous)
    variables embeds the pattern into a set-like message iff it is (up to lookup) one of the
    returned sets. -/
theorem match_exact (p f : V) (σ : Bs)
    (hp : p.plainPat = true) (hf : f.good = true) (hs : setLike f = true)
    (hl : Linear p) (hv : PlainVars p) (hσ : GoodBs σ)
    (hdom : ∀ k, lookup k σ ≠ none → k ∈ varsOf p ∧ isAnon k = false) :
    Emb [] σ p f ↔
      ∃ n rs, matchF n p f [] = .ok rs ∧ ∃ r ∈ rs, (∀ k, lookup k r = lookup k σ) := by
  constructor
  · intro hemb
    have hrep : RepeatScalar p [] σ := by
      intro v x hlk hc
      exfalso
      rcases hc with hc | hc
      · have hd := hdom v (by rw [hlk]; simp)
        have := occurrences_le_one hl hd.2
        omega
      · exact hc rfl
    obtain ⟨n, rs, h, r, hr, hsub, _, hbinds⟩ :=
      match_complete_binds p f [] σ hp hf hs (fun _ _ h => nomatch h) hσ (fun _ _ h => nomatch h)
        (fun v hvv hne => absurd (hv v hvv).2 hne) hrep
        (optOnce_of_noOpt (fun v hvv => (hv v hvv).1))
        (ineqBaseNum_of_noIneq (fun v hvv => (hv v hvv).2)) hemb
    refine ⟨n, rs, h, r, hr, fun k => ?_⟩
    cases hlr : lookup k r with
    | some x => exact (hsub k x hlr).symm
    | none =>
      cases hls : lookup k σ with
      | none => rfl
      | some y =>
        have hd := hdom k (by rw [hls]; simp)
        have := hbinds k hd.1 (hv k hd.1).1 hd.2
        rw [hlr, hls] at this
        exact this
  · rintro ⟨n, rs, h, r, hr, heq⟩
    have hemb := (match_exact_sound n p f rs r hp hf hl hv h hr).1
    exact Emb.mono (fun k x hk => by rw [← heq k]; exact hk) hemb

/-! ## Non-vacuity: the hypotheses are decidable and hold of concrete instances -/

instance (p : V) : Decidable (Linear p) := by unfold Linear; infer_instance
instance (p : V) : Decidable (PlainVars p) := by unfold PlainVars; infer_instance

/-- a repeated variable is not linear -/
example : ¬ Linear (.arr [.arr [.str "?x"], .arr [.str "?x"]]) := by decide

theorem ex2_dom : ∀ k, lookup k ex2S ≠ none → k ∈ varsOf ex2P ∧ isAnon k = false := by
  intro k hk
  unfold ex2S at hk
  simp only [lookup] at hk
  split at hk
  · next h => subst h; decide
  · split at hk
    · next h => subst h; decide
    · exact absurd rfl hk

/-- `{"?k": {"n": "?v"}}` in `{"a": 1, "b": {"n": 2, "m": 3}}`: the embedding `ex2S` is returned … -/
example : ∃ n rs, matchF n ex2P ex2F [] = .ok rs ∧ ∃ r ∈ rs, ∀ k, lookup k r = lookup k ex2S :=
  (match_exact ex2P ex2F ex2S (by decide) (by decide) (by decide) (by decide) (by decide)
    (by decide) ex2_dom).mp ex2_emb

/-- … and the (only) returned set is an embedding -/
example : Emb [] [("?v", .num 2), ("?k", .str "b")] ex2P ex2F :=
  (match_exact_sound 40 ex2P ex2F [[("?v", .num 2), ("?k", .str "b")]] _ (by decide) (by decide)
    (by decide) (by decide) rfl List.mem_cons_self).1

/-- nested arrays with extra message elements -/
example : Linear ex1P ∧ PlainVars ex1P := by decide

end Sheens.C02

#print axioms Sheens.C02.match_exact_sound
#print axioms Sheens.C02.match_exact
