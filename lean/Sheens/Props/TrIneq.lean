import Sheens.GoSem
import Sheens.Gen.GoAst
import Sheens.Match
import Sheens.Props.TrMatch
open Go Gen.GoAst

/-!
# Tie C, proved part: the translated `Matcher.inequal`

`tr_inequal`: running the declaration of `inequal` that `go/go2lean` regenerated from
`match/match.go` returns, for every message value, bindings map, variable name and heap, what
`inequalG` says — the model's `inequal` line for line, over the interpreter's values, with the
model's own operator scan `ineqOf` and relation `IneqOp.rel`.  The proof follows the source in
four segments glued by `execB_append` (statements run in sequence): the guards and the two numbers
(`seg1_run`), the operator scan — a `switch` on the byte length and a loop over the five operator
strings, by cases on the first characters after the '?' (`seg2_run`), the relation (`seg3a_run`),
the counterpart binding with its in-place store into the bindings map (`seg3b_run`).
-/

namespace Sheens.TrIneq

/-- statements run in sequence: a block `xs ++ ys` is `xs`, then — if control falls through — `ys`
    with what is left of the fuel -/
theorem execB_append (p : Prog) (g : Env) (ys : List GS) : ∀ (xs : List GS) (n : Nat) (env : Env) (H : Heap),
    execB (n + 1 + xs.length) p g env H (xs ++ ys) =
      (match execB (n + 1 + xs.length) p g env H xs with
       | .error e => .error e
       | .ok (.next, env1, H1) => execB (n + 1) p g env1 H1 ys
       | .ok r => .ok r) := by
  intro xs
  induction xs with
  | nil => intro n env H; simp [execB]
  | cons x xs ih =>
    intro n env H
    rw [show n + 1 + (x :: xs).length = (n + 1 + xs.length) + 1 by simp; omega]
    simp only [List.cons_append, execB]
    cases hx : execS (n + 1 + xs.length) p g env H x with
    | error e => rfl
    | ok r =>
      obtain ⟨fl, env1, H1⟩ := r
      cases fl with
      | next => simp only []; exact ih n env1 H1
      | _ => rfl

attribute [local simp] callFn bindParams execB execS execOpt execBlock evalE evalArgs evalOpt eval1 assignAll assignTo
  envGet envSet envLeave builtin typeOf parseTy zeroOf truthy binop goEq keyEq pickCase anyCase Except.map toF64

open Sheens.TrMatch

/-- `fudge(x).(float64)` on interface values -/
def asNumG : GV → Option Rat
  | .f64 q => some q
  | .int i => some i
  | .numT _ i => some i
  | _ => none

theorem fudge_num {x : GV} {q : Rat} (h : asNumG x = some q) : fudgeG x = .f64 q := by
  cases x <;> simp [asNumG, fudgeG] at h ⊢ <;> exact h

theorem fudge_nonnum (H : Heap) {x : GV} (h : asNumG x = none) : ¬ (typeOf H (fudgeG x) = GT.f64) := by
  cases x with
  | ref a => cases hh : heapGet H a <;> simp [fudgeG, typeOf, hh]
  | _ => simp [asNumG, fudgeG, typeOf] at h ⊢

def seg1 : List GS := matchProg_Minequal.body.take 10
def seg2 : List GS := (matchProg_Minequal.body.drop 10).take 3
def seg3a : List GS := (matchProg_Minequal.body.drop 13).take 2
def seg3b : List GS := matchProg_Minequal.body.drop 15

theorem body_split : matchProg_Minequal.body = seg1 ++ (seg2 ++ (seg3a ++ seg3b)) := by rfl

theorem find_inequal : findFn matchProg ".inequal" = some matchProg_Minequal := by rfl

def envA (am ab : Nat) (f : GV) (v : String) (a b : Rat) : Env :=
  [("is", .bool true), ("a", .f64 a), ("is", .bool true), ("b", .f64 b), ("have", .bool true), ("x", .f64 a),
   ("m", .ref am), ("fact", f), ("bs", .ref ab), ("v", .str v)]

theorem isVar_cons {v : String} (hv : isVar v = true) : ∃ rest, v.toList = '?' :: rest := by
  unfold isVar at hv
  cases hl : v.toList with
  | nil => simp [hl] at hv
  | cons c cs =>
    rw [hl] at hv
    by_cases hc : c = '?'
    · exact ⟨cs, by rw [hc]⟩
    · exfalso; revert hv; split
      · next h2 => cases h2; exact absurd rfl hc
      · simp

/-- the result of a block without the environment it ended in -/
def proj (r : R (Flow × Env × Heap)) : R (Flow × Heap) :=
  match r with
  | .ok (fl, _, H) => .ok (fl, H)
  | .error e => .error e

theorem proj_elim {r : R (Flow × Env × Heap)} {fl : Flow} {H : Heap} (h : proj r = .ok (fl, H)) :
    ∃ env', r = .ok (fl, env', H) := by
  cases r with
  | error e => simp [proj] at h
  | ok x => obtain ⟨a, b, c⟩ := x; simp [proj] at h; exact ⟨b, by rw [h.1, h.2]⟩

/-- statements 0–9: the switch, the leading '?', the bound and the message value as numbers -/
theorem seg1_run (n : Nat) (g : Env) (H : Heap) (am ab : Nat) (mo bo : MapObj) (f : GV) (v : String)
    (hm : heapGet H am = some mo) (hI : mlookup (.str "Inequalities") mo.kvs = some (.bool true))
    (hb : heapGet H ab = some bo) (hv : isVar v = true) :
    (match mlookup (.str v) bo.kvs with
     | none => proj (execB (n + 40) matchProg g [("m", .ref am), ("fact", f), ("bs", .ref ab), ("v", .str v)] H seg1) =
          .ok (.ret [.bool false, .nil, .nil], H)
     | some x =>
       match asNumG x, asNumG f with
       | some b, some a => execB (n + 40) matchProg g [("m", .ref am), ("fact", f), ("bs", .ref ab), ("v", .str v)] H seg1 =
          .ok (.next, envA am ab f v a b, H)
       | _, _ => proj (execB (n + 40) matchProg g [("m", .ref am), ("fact", f), ("bs", .ref ab), ("v", .str v)] H seg1) =
          .ok (.ret [.bool false, .nil, .nil], H)) := by
  obtain ⟨rest, hrest⟩ := isVar_cons hv
  have hf1 : ∀ y, callFn (n + 33) matchProg g "fudge" .nil [y] H = .ok ([fudgeG y], H) := fun y => by
    rw [show n + 33 = (n + 21) + 12 from rfl]; exact tr_fudge _ g y H
  have hf2 : ∀ y, callFn (n + 30) matchProg g "fudge" .nil [y] H = .ok ([fudgeG y], H) := fun y => by
    rw [show n + 30 = (n + 18) + 12 from rfl]; exact tr_fudge _ g y H
  have t64 : ∀ q, typeOf H (.f64 q) = GT.f64 := fun _ => rfl
  cases hx : mlookup (.str v) bo.kvs with
  | none =>
    simp [-callFn, proj, seg1, matchProg_Minequal, hm, hI, hb, indexV, hrest, leadByte, hx]
  | some x =>
    try dsimp only
    cases hbn : asNumG x with
    | none =>
      try dsimp only
      simp [-callFn, -typeOf, proj, seg1, matchProg_Minequal, hm, hI, hb, indexV, hrest, leadByte, hx]
      rw [hf1 x]
      simp [-callFn, -typeOf, fudge_nonnum H hbn]
    | some b =>
      try dsimp only
      cases han : asNumG f with
      | none =>
        try dsimp only
        simp [-callFn, -typeOf, proj, seg1, matchProg_Minequal, hm, hI, hb, indexV, hrest, leadByte, hx]
        rw [hf1 x]
        simp [-callFn, -typeOf, t64, fudge_num hbn]
        rw [hf2 f]
        simp [-callFn, -typeOf, fudge_nonnum H han]
      | some a =>
        try dsimp only
        simp [-callFn, -typeOf, seg1, matchProg_Minequal, hm, hI, hb, indexV, hrest, leadByte, hx]
        rw [hf1 x]
        simp [-callFn, -typeOf, t64, fudge_num hbn]
        rw [hf2 f]
        simp [-callFn, -typeOf, t64, fudge_num han, envA]

@[simp] theorem dropBytes_zero (cs : List Char) : dropBytes cs 0 = some cs := by
  cases cs <;> simp [dropBytes]

theorem int_beq_false (x y : Int) (h : x ≠ y) : (x == y) = false := by
  rw [beq_eq_false_iff_ne]; exact h

def opStr : IneqOp → String
  | .le => "<=" | .ge => ">=" | .ne => "!=" | .gt => ">" | .lt => "<"

def envB (am ab : Nat) (f : GV) (v : String) (a b : Rat) (op : IneqOp) (vv : String) : Env :=
  ("ineq", .str (opStr op)) :: ("vv", .str vv) :: envA am ab f v a b

/-- statements 10–12: the operator scan -/
theorem seg2_run (n : Nat) (g : Env) (H : Heap) (am ab : Nat) (f : GV) (v : String) (a b : Rat) (hv : isVar v = true) :
    (match ineqOf v with
     | none => proj (execB (n + 60) matchProg g (envA am ab f v a b) H seg2) = .ok (.ret [.bool false, .nil, .nil], H)
     | some (op, vv) => execB (n + 60) matchProg g (envA am ab f v a b) H seg2 = .ok (.next, envB am ab f v a b op vv, H)) := by
  obtain ⟨rest, hrest⟩ := isVar_cons hv
  have hq : '?'.utf8Size = 1 := by decide
  cases rest with
  | nil =>
    have : ineqOf v = none := by simp [ineqOf, hrest]
    rw [this]
    simp [-callFn, proj, seg2, matchProg_Minequal, envA, goLen, hrest, byteLen, hq]
  | cons c rest' =>
    have hcpos := Char.utf8Size_pos c
    cases rest' with
    | nil =>
      have hnone : ineqOf v = none := by
        simp [ineqOf, hrest]
      rw [hnone]
      by_cases hc1 : c.utf8Size = 1
      · simp [-callFn, proj, seg2, matchProg_Minequal, envA, goLen, hrest, byteLen, hq, hc1]
      · have hcl : ¬ c = '<' := fun h => hc1 (by rw [h]; decide)
        have hcg : ¬ c = '>' := fun h => hc1 (by rw [h]; decide)
        have hcl' : ¬ '<' = c := fun h => hcl h.symm
        have hcg' : ¬ '>' = c := fun h => hcg h.symm
        have h1 : (1 + (c.utf8Size : Int) == 1) = false := by rw [beq_eq_false_iff_ne]; omega
        have h2 : (1 + (c.utf8Size : Int) == 2) = false := by rw [beq_eq_false_iff_ne]; omega
        simp [-callFn, proj, seg2, matchProg_Minequal, envA, goLen, hrest, byteLen, hq, h1, h2, sliceV, dropBytes, loopR, rangeItems,
          List.isPrefixOf, hcl', hcg', List.range, List.range.loop, List.zip, List.zipWith]
    | cons d r =>
      have hdpos := Char.utf8Size_pos d
      have hlt : '<'.utf8Size = 1 := by decide
      have hgt : '>'.utf8Size = 1 := by decide
      have hbang : '!'.utf8Size = 1 := by decide
      have heq : '='.utf8Size = 1 := by decide
      by_cases hcl : '<' = c
      · subst hcl
        by_cases hde : '=' = d
        · subst hde
          have hio : ineqOf v = some (.le, String.ofList ('?' :: r)) := by simp [ineqOf, hrest]
          rw [hio]
          simp [-callFn, seg2, matchProg_Minequal, envA, envB, opStr, goLen, hrest, byteLen, hq, hlt, hgt, hbang, heq]
          generalize (List.map (fun c : Char => c.utf8Size) r).sum = S
          have e1 : (1 + (1 + (1 + (S : Int))) == 1) = false := by rw [beq_eq_false_iff_ne]; omega
          have e2 : (1 + (1 + (1 + (S : Int))) == 2) = false := by rw [beq_eq_false_iff_ne]; omega
          simp [-callFn, envA, envB, opStr, goLen, hrest, byteLen, hq, hlt, hgt, hbang, heq, sliceV, dropBytes, loopR, rangeItems,
            List.isPrefixOf, List.range, List.range.loop, List.zip, List.zipWith, e1, e2]
        · 
          have hde' : ¬ d = '=' := fun h => hde h.symm
          have hio : ineqOf v = some (.lt, String.ofList ('?' :: d :: r)) := by
            simp only [ineqOf, hrest]
            try (split <;> simp_all)
          rw [hio]
          simp [-callFn, seg2, matchProg_Minequal, envA, envB, opStr, goLen, hrest, byteLen, hq, hlt, hgt, hbang, heq]
          generalize (List.map (fun c : Char => c.utf8Size) r).sum = S
          have e1 : (1 + (1 + ((d.utf8Size : Int) + (S : Int))) == 1) = false := by rw [beq_eq_false_iff_ne]; omega
          have e2 : (1 + (1 + ((d.utf8Size : Int) + (S : Int))) == 2) = false := by rw [beq_eq_false_iff_ne]; omega
          simp [-callFn, envA, envB, opStr, goLen, hrest, byteLen, hq, hlt, hgt, hbang, heq, sliceV, dropBytes, loopR, rangeItems,
            List.isPrefixOf, List.range, List.range.loop, List.zip, List.zipWith, e1, e2, hde]
      · by_cases hcg : '>' = c
        · subst hcg
          by_cases hde : '=' = d
          · subst hde
            have hio : ineqOf v = some (.ge, String.ofList ('?' :: r)) := by simp [ineqOf, hrest]
            rw [hio]
            simp [-callFn, seg2, matchProg_Minequal, envA, envB, opStr, goLen, hrest, byteLen, hq, hlt, hgt, hbang, heq]
            generalize (List.map (fun c : Char => c.utf8Size) r).sum = S
            have e1 : (1 + (1 + (1 + (S : Int))) == 1) = false := by rw [beq_eq_false_iff_ne]; omega
            have e2 : (1 + (1 + (1 + (S : Int))) == 2) = false := by rw [beq_eq_false_iff_ne]; omega
            simp [-callFn, envA, envB, opStr, goLen, hrest, byteLen, hq, hlt, hgt, hbang, heq, sliceV, dropBytes, loopR, rangeItems,
              List.isPrefixOf, List.range, List.range.loop, List.zip, List.zipWith, e1, e2]
          · 
            have hde' : ¬ d = '=' := fun h => hde h.symm
            have hio : ineqOf v = some (.gt, String.ofList ('?' :: d :: r)) := by
              simp only [ineqOf, hrest]
              try (split <;> simp_all)
            rw [hio]
            simp [-callFn, seg2, matchProg_Minequal, envA, envB, opStr, goLen, hrest, byteLen, hq, hlt, hgt, hbang, heq]
            generalize (List.map (fun c : Char => c.utf8Size) r).sum = S
            have e1 : (1 + (1 + ((d.utf8Size : Int) + (S : Int))) == 1) = false := by rw [beq_eq_false_iff_ne]; omega
            have e2 : (1 + (1 + ((d.utf8Size : Int) + (S : Int))) == 2) = false := by rw [beq_eq_false_iff_ne]; omega
            simp [-callFn, envA, envB, opStr, goLen, hrest, byteLen, hq, hlt, hgt, hbang, heq, sliceV, dropBytes, loopR, rangeItems,
              List.isPrefixOf, List.range, List.range.loop, List.zip, List.zipWith, e1, e2, hde]
        · by_cases hcb : '!' = c
          · subst hcb
            by_cases hde : '=' = d
            · subst hde
              have hio : ineqOf v = some (.ne, String.ofList ('?' :: r)) := by simp [ineqOf, hrest]
              rw [hio]
              simp [-callFn, seg2, matchProg_Minequal, envA, envB, opStr, goLen, hrest, byteLen, hq, hlt, hgt, hbang, heq]
              generalize (List.map (fun c : Char => c.utf8Size) r).sum = S
              have e1 : (1 + (1 + (1 + (S : Int))) == 1) = false := by rw [beq_eq_false_iff_ne]; omega
              have e2 : (1 + (1 + (1 + (S : Int))) == 2) = false := by rw [beq_eq_false_iff_ne]; omega
              simp [-callFn, envA, envB, opStr, goLen, hrest, byteLen, hq, hlt, hgt, hbang, heq, sliceV, dropBytes, loopR, rangeItems,
                List.isPrefixOf, List.range, List.range.loop, List.zip, List.zipWith, e1, e2]
            · 
              have hde' : ¬ d = '=' := fun h => hde h.symm
              have hio : ineqOf v = none := by
                simp only [ineqOf, hrest]
                try (split <;> simp_all)
              rw [hio]
              simp [-callFn, proj, seg2, matchProg_Minequal, envA, goLen, hrest, byteLen, hq, hlt, hgt, hbang, heq]
              generalize (List.map (fun c : Char => c.utf8Size) r).sum = S
              have e1 : (1 + (1 + ((d.utf8Size : Int) + (S : Int))) == 1) = false := by rw [beq_eq_false_iff_ne]; omega
              have e2 : (1 + (1 + ((d.utf8Size : Int) + (S : Int))) == 2) = false := by rw [beq_eq_false_iff_ne]; omega
              simp [-callFn, proj, envA, goLen, hrest, byteLen, hq, hlt, hgt, hbang, heq, sliceV, dropBytes, loopR, rangeItems,
                List.isPrefixOf, List.range, List.range.loop, List.zip, List.zipWith, e1, e2, hde]
          · 
            have hcl' : ¬ c = '<' := fun h => hcl h.symm
            have hcg' : ¬ c = '>' := fun h => hcg h.symm
            have hcb' : ¬ c = '!' := fun h => hcb h.symm
            have hio : ineqOf v = none := by
              simp only [ineqOf, hrest]
              try (split <;> simp_all)
            rw [hio]
            simp [-callFn, proj, seg2, matchProg_Minequal, envA, goLen, hrest, byteLen, hq]
            generalize (List.map (fun c : Char => c.utf8Size) r).sum = S
            have e1 : (1 + ((c.utf8Size : Int) + ((d.utf8Size : Int) + (S : Int))) == 1) = false := by rw [beq_eq_false_iff_ne]; omega
            have e2 : (1 + ((c.utf8Size : Int) + ((d.utf8Size : Int) + (S : Int))) == 2) = false := by rw [beq_eq_false_iff_ne]; omega
            simp [-callFn, proj, envA, goLen, hrest, byteLen, hq, sliceV, dropBytes, loopR, rangeItems,
              List.isPrefixOf, List.range, List.range.loop, List.zip, List.zipWith, e1, e2, hcl, hcg, hcb]

/-- statements 13–14: the relation -/
theorem seg3a_run (n : Nat) (g : Env) (H : Heap) (am ab : Nat) (f : GV) (v : String) (a b : Rat) (op : IneqOp) (vv : String) :
    execB (n + 40) matchProg g (envB am ab f v a b op vv) H seg3a =
      .ok (.next, ("satisfied", .bool (op.rel a b)) :: envB am ab f v a b op vv, H) := by
  cases op
  case le =>
    by_cases hr : a ≤ b <;> simp [-callFn, seg3a, matchProg_Minequal, envA, envB, opStr, IneqOp.rel, hr]
  case ge =>
    by_cases hr : b ≤ a <;> simp [-callFn, seg3a, matchProg_Minequal, envA, envB, opStr, IneqOp.rel, hr]
  case ne =>
    by_cases hr : a = b <;> simp [-callFn, seg3a, matchProg_Minequal, envA, envB, opStr, IneqOp.rel, hr]
  case gt =>
    by_cases hr : b < a <;> simp [-callFn, seg3a, matchProg_Minequal, envA, envB, opStr, IneqOp.rel, hr]
  case lt =>
    by_cases hr : a < b <;> simp [-callFn, seg3a, matchProg_Minequal, envA, envB, opStr, IneqOp.rel, hr]

/-- statements 15–19: the counterpart binding -/
theorem seg3b_run (n : Nat) (g : Env) (H : Heap) (am ab : Nat) (bo : MapObj) (f : GV) (v : String) (a b : Rat)
    (op : IneqOp) (vv : String) (sat : Bool) (hb : heapGet H ab = some bo) :
    proj (execB (n + 40) matchProg g (("satisfied", .bool sat) :: envB am ab f v a b op vv) H seg3b) =
      (if !sat then .ok (.ret [.bool true, .nil, .nil], H)
       else match mlookup (.str vv) bo.kvs with
         | some c' =>
           match asNumG c' with
           | none => .ok (.ret [.bool false, .nil, .nil], H)
           | some c => if c = a then .ok (.ret [.bool true, .slice [.ref ab], .nil], H)
                       else .ok (.ret [.bool true, .nil, .nil], H)
         | none => .ok (.ret [.bool true, .slice [.ref ab], .nil],
                        heapSet H ab { bo with kvs := minsert (.str vv) (.f64 a) bo.kvs })) := by
  have t64 : ∀ q, typeOf H (.f64 q) = GT.f64 := fun _ => rfl
  cases sat with
  | false => simp [-callFn, proj, seg3b, matchProg_Minequal, envA, envB]
  | true =>
    cases hl : mlookup (.str vv) bo.kvs with
    | none =>
      simp [-callFn, proj, seg3b, matchProg_Minequal, envA, envB, indexV, hb, hl]
    | some c' =>
      have hf : callFn (n + 31) matchProg g "fudge" .nil [c'] H = .ok ([fudgeG c'], H) := by
        rw [show n + 31 = (n + 19) + 12 from rfl]; exact tr_fudge _ g c' H
      simp [-callFn, -typeOf, proj, seg3b, matchProg_Minequal, envA, envB, indexV, hb, hl]
      rw [hf]
      cases hc : asNumG c' with
      | none =>
        simp [-callFn, -typeOf, fudge_nonnum H hc]
      | some c =>
        by_cases hca : c = a
        · subst hca
          simp [-callFn, -typeOf, t64, fudge_num hc]
        · simp [-callFn, -typeOf, t64, fudge_num hc, hca]

/-- `Matcher.inequal` over the interpreter's values — the model's `inequal`, line for line, with
    `ineqOf` and `IneqOp.rel` of the model itself -/
inductive IneqOut where
  | notUsing                              -- (false, nil, nil): fall through to ordinary variable handling
  | fails                                 -- (true, nil, nil): an inequality, and it does not hold
  | holds (kvs' : List (GV × GV))         -- (true, [bs], nil), the bindings now `kvs'`

def inequalG (f : GV) (kvs : List (GV × GV)) (v : String) : IneqOut :=
  match mlookup (.str v) kvs with
  | none => .notUsing
  | some x =>
    match asNumG x with
    | none => .notUsing
    | some b =>
      match asNumG f with
      | none => .notUsing
      | some a =>
        match ineqOf v with
        | none => .notUsing
        | some (op, vv) =>
          if !(op.rel a b) then .fails
          else
            match mlookup (.str vv) kvs with
            | some c' =>
              match asNumG c' with
              | none => .notUsing
              | some c => if c = a then .holds kvs else .fails
            | none => .holds (minsert (.str vv) (.f64 a) kvs)

def ineqResult (H : Heap) (ab : Nat) (bo : MapObj) : IneqOut → R (List GV × Heap)
  | .notUsing => .ok ([.bool false, .nil, .nil], H)
  | .fails => .ok ([.bool true, .nil, .nil], H)
  | .holds kvs' => .ok ([.bool true, .slice [.ref ab], .nil], heapSet H ab { bo with kvs := kvs' })

/-- **The translated `Matcher.inequal`** (as regenerated from match/match.go) computes `inequalG`, for
    every message value, bindings map, variable name and heap. -/
theorem tr_inequal (j : Nat) (g : Env) (H : Heap) (am ab : Nat) (mo bo : MapObj) (f : GV) (v : String)
    (hm : heapGet H am = some mo) (hI : mlookup (.str "Inequalities") mo.kvs = some (.bool true))
    (hb : heapGet H ab = some bo) (hv : isVar v = true) :
    callFn (j + 76) matchProg g ".inequal" (.ref am) [f, .ref ab, .str v] H =
      ineqResult H ab bo (inequalG f bo.kvs v) := by
  rw [show j + 76 = (j + 75) + 1 from rfl]
  simp only [callFn, find_inequal]
  have hp : matchProg_Minequal.params = ["fact", "bs", "v"] ∧ matchProg_Minequal.recv = "m" ∧
      matchProg_Minequal.variadic = false := ⟨rfl, rfl, rfl⟩
  simp only [hp.1, hp.2.1, hp.2.2, bindParams, Option.map]
  simp only [show ("m" = "") = False by decide, if_false, body_split]
  -- the four segments
  have s1 := seg1_run (j + 35) g H am ab mo bo f v hm hI hb hv
  rw [show j + 75 = (j + 64) + 1 + seg1.length from rfl, execB_append]
  rw [show j + 64 + 1 + seg1.length = j + 35 + 40 from rfl]
  unfold inequalG
  cases hx : mlookup (.str v) bo.kvs with
  | none =>
    rw [hx] at s1
    try dsimp only at s1 ⊢
    obtain ⟨env', he⟩ := proj_elim s1
    rw [he]; rfl
  | some x =>
    rw [hx] at s1
    try dsimp only at s1 ⊢
    cases hbn : asNumG x with
    | none =>
      rw [hbn] at s1
      try dsimp only at s1 ⊢
      obtain ⟨env', he⟩ := proj_elim s1
      rw [he]; rfl
    | some b =>
      rw [hbn] at s1
      try dsimp only at s1 ⊢
      cases han : asNumG f with
      | none =>
        rw [han] at s1
        try dsimp only at s1 ⊢
        obtain ⟨env', he⟩ := proj_elim s1
        rw [he]; rfl
      | some a =>
        rw [han] at s1
        try dsimp only at s1 ⊢
        try dsimp only at s1 ⊢
        rw [s1]
        try dsimp only
        have s2 := seg2_run (j + 5) g H am ab f v a b hv
        rw [show j + 64 + 1 = (j + 61) + 1 + seg2.length from rfl, execB_append]
        rw [show j + 61 + 1 + seg2.length = j + 5 + 60 from rfl]
        cases hio : ineqOf v with
        | none =>
          rw [hio] at s2
          try dsimp only at s2 ⊢
          obtain ⟨env', he⟩ := proj_elim s2
          rw [he]; rfl
        | some opvv =>
          obtain ⟨op, vv⟩ := opvv
          rw [hio] at s2
          try dsimp only at s2 ⊢
          try dsimp only at s2 ⊢
          rw [s2]
          try dsimp only
          have s3 := seg3a_run (j + 22) g H am ab f v a b op vv
          rw [show j + 61 + 1 = (j + 59) + 1 + seg3a.length from rfl, execB_append]
          rw [show j + 59 + 1 + seg3a.length = j + 22 + 40 from rfl, s3]
          try dsimp only
          have s4 := seg3b_run (j + 20) g H am ab bo f v a b op vv (op.rel a b) hb
          rw [show j + 59 + 1 = j + 20 + 40 from rfl]
          cases hrel : op.rel a b with
          | false =>
            rw [hrel] at s4
            simp at s4
            obtain ⟨env', he⟩ := proj_elim s4; rw [he]; simp [ineqResult]
          | true =>
            rw [hrel] at s4
            cases hl : mlookup (.str vv) bo.kvs with
            | none =>
              rw [hl] at s4
              simp at s4
              obtain ⟨env', he⟩ := proj_elim s4; rw [he]; simp [ineqResult]
            | some c' =>
              rw [hl] at s4
              cases hc : asNumG c' with
              | none =>
                simp [hc] at s4
                obtain ⟨env', he⟩ := proj_elim s4; rw [he]; simp [ineqResult, hc]
              | some c =>
                by_cases hca : c = a
                · simp [hc, hca] at s4
                  obtain ⟨env', he⟩ := proj_elim s4; rw [he]; simp [ineqResult, hc, hca, heapSet_self H ab bo hb]
                · simp [hc, hca] at s4
                  obtain ⟨env', he⟩ := proj_elim s4; rw [he]; simp [ineqResult, hc, hca]

/-- Non-vacuity, and the documented example: bindings `{"?<n": 10}`, variable `?<n`, message value 3 —
    the translated `inequal` reports an inequality that holds and stores `?n := 3` in the bindings map. -/
example (j : Nat) (g : Env) :
    callFn (j + 76) matchProg g ".inequal" (.ref 0) [.f64 3, .ref 1, .str "?<n"]
      [{ ty := "Matcher", kvs := [(.str "Inequalities", .bool true)] }, { ty := "Bindings", kvs := [(.str "?<n", .f64 10)] }] =
    .ok ([.bool true, .slice [.ref 1], .nil],
      [{ ty := "Matcher", kvs := [(.str "Inequalities", .bool true)] },
       { ty := "Bindings", kvs := [(.str "?<n", .f64 10), (.str "?n", .f64 3)] }]) := by
  have h := tr_inequal j g
    [{ ty := "Matcher", kvs := [(.str "Inequalities", .bool true)] }, { ty := "Bindings", kvs := [(.str "?<n", .f64 10)] }]
    0 1 { ty := "Matcher", kvs := [(.str "Inequalities", .bool true)] } { ty := "Bindings", kvs := [(.str "?<n", .f64 10)] }
    (.f64 3) "?<n" rfl rfl rfl (by decide)
  rw [h]
  have h3 : (3 : Rat) < 10 := by decide
  simp [ineqResult, inequalG, mlookup, keyEq, asNumG, ineqOf, IneqOp.rel, minsert, heapSet, h3]

end Sheens.TrIneq
