import Sheens.Props.C02Exact
import Sheens.Proofs.KeyPermLemmas

/-!
# Property C03, order independence — a positive theorem on linear plain patterns

The full statement (`C03.order_independent_full`) is false of the code (three known findings, all
of which need a variable used at several places, an optional variable, or an invalid pattern).
On the fragment where `C02.match_exact` applies — every non-anonymous variable occurs once, no
optional or inequality-named variable, nothing pre-bound — the *set of returned binding sets* does
not depend on the order in which the keys of the pattern's maps are visited: for every hereditary
re-ordering `p'` of the keys of `p`, the same assignments are returned (up to `lookup`).

Go visits the keys of a map in an unspecified order; the model visits an association list front to
back; `KeyPerm p p'` says that `p'` is `p` with the entries of every map, at every depth, listed in
some other order (arrays keep their order: they are slices).
-/

namespace Sheens.C03

mutual
/-- `p'` is `p` with the entries of its maps re-ordered, at every depth -/
inductive KeyPerm : V → V → Prop
  | refl (v : V) : KeyPerm v v
  | arr {xs ys : List V} : KeyPermL xs ys → KeyPerm (.arr xs) (.arr ys)
  | obj {kvs mid kvs' : List (String × V)} : KeyPermKvs kvs mid → mid.Perm kvs' → KeyPerm (.obj kvs) (.obj kvs')
inductive KeyPermL : List V → List V → Prop
  | nil : KeyPermL [] []
  | cons {x y : V} {xs ys : List V} : KeyPerm x y → KeyPermL xs ys → KeyPermL (x :: xs) (y :: ys)
inductive KeyPermKvs : List (String × V) → List (String × V) → Prop
  | nil : KeyPermKvs [] []
  | cons {k : String} {x y : V} {xs ys : List (String × V)} :
      KeyPerm x y → KeyPermKvs xs ys → KeyPermKvs ((k, x) :: xs) ((k, y) :: ys)
end

open Sheens.KeyPermLemmas in
/-- A hereditary re-ordering has the same embeddings, is as plain, and has the same variables
    (`Sheens/Proofs/KeyPermLemmas.lean`): simultaneous induction on the three relations. -/
theorem KeyPerm.inv (bs₀ σ : Bs) {p p' : V} (hk : KeyPerm p p') : Inv bs₀ σ p p' :=
  KeyPerm.rec
    (motive_1 := fun a b _ => Inv bs₀ σ a b)
    (motive_2 := fun xs ys _ => RelL (Inv bs₀ σ) xs ys)
    (motive_3 := fun xs ys _ => RelK (Inv bs₀ σ) xs ys)
    (fun v => Inv.refl bs₀ σ v)
    (fun _ ih => Inv.arr ih)
    (fun _ hp ih => Inv.obj ih hp)
    RelL.nil
    (fun _ _ ih1 ih2 => RelL.cons ih1 ih2)
    RelK.nil
    (fun _ _ ih1 ih2 => RelK.cons ih1 ih2)
    hk

open Sheens.C02 in
/-- On linear plain patterns the returned assignments are the same for every order of the keys. -/
theorem order_independent_linear (p p' f : V) (σ : Bs)
    (hk : KeyPerm p p')
    (hp : p.plainPat = true) (hf : f.good = true) (hs : setLike f = true)
    (hl : Linear p) (hv : PlainVars p) (hσ : GoodBs σ)
    (hdom : ∀ k, lookup k σ ≠ none → k ∈ varsOf p ∧ isAnon k = false) :
    (∃ n rs, matchF n p f [] = .ok rs ∧ ∃ r ∈ rs, ∀ k, lookup k r = lookup k σ) ↔
    (∃ n rs, matchF n p' f [] = .ok rs ∧ ∃ r ∈ rs, ∀ k, lookup k r = lookup k σ) :=
  (hk.inv [] σ).order_independent hp hf hs hl hv hσ hdom

/-- non-vacuity: two orders of a two-key pattern with a nested map -/
example : KeyPerm (.obj [("a", .str "?x"), ("b", .obj [("c", .str "?y"), ("d", .num 1)])])
                  (.obj [("b", .obj [("d", .num 1), ("c", .str "?y")]), ("a", .str "?x")]) :=
  KeyPerm.obj
    (KeyPermKvs.cons (KeyPerm.refl _)
      (KeyPermKvs.cons
        (KeyPerm.obj (KeyPermKvs.cons (KeyPerm.refl _) (KeyPermKvs.cons (KeyPerm.refl _) KeyPermKvs.nil))
          (List.Perm.swap _ _ _))
        KeyPermKvs.nil))
    (List.Perm.swap _ _ _)

end Sheens.C03

#print axioms Sheens.C03.order_independent_linear
