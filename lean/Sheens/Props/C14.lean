import Sheens.MCrew
import Sheens.Proofs.SioLemmas

/-!
# Property C14 — routing

Over the models `Sio.toMachines` / `Sio.runMachines` / `Sio.bfs` (single-loop crew) and
`MCrew.route` (mcrew service).
-/

namespace Sheens.C14

open Sio

/-- Ordinary routing never reaches the service machines. -/
theorem allMachines_excludes_services (c : Crew) :
    timersId ∉ allMachines c ∧ captainId ∉ allMachines c := by
  simp [allMachines, List.mem_filter]

/-- `allMachines` is every other machine of the crew. -/
theorem mem_allMachines (c : Crew) (mid : String) :
    mid ∈ allMachines c ↔ (mid ∈ c.machines.map (·.1) ∧ mid ≠ timersId ∧ mid ≠ captainId) := by
  simp only [allMachines, List.mem_filter, Bool.and_eq_true, bne_iff_ne, ne_eq]

/-- The addressees of a message: a string id names that machine (`"*"` = everybody); a list names
    its string members; anything else (absent `to`, a non-container) is everybody. -/
theorem toMachines_id (c : Crew) (kvs : List (String × V)) (t : String)
    (h : lookup "to" kvs = some (.str t)) (hs : (t == "*") = false) : toMachines c (.obj kvs) = [t] := by
  simp only [toMachines, h, hs, Bool.false_eq_true, if_false]

theorem toMachines_star (c : Crew) (kvs : List (String × V))
    (h : lookup "to" kvs = some (.str "*")) : toMachines c (.obj kvs) = allMachines c := by
  simp [toMachines, h]

theorem toMachines_list (c : Crew) (kvs : List (String × V)) (xs : List V)
    (h : lookup "to" kvs = some (.arr xs)) (mid : String) :
    mid ∈ toMachines c (.obj kvs) ↔ V.str mid ∈ xs := by
  simp only [toMachines, h, List.mem_filterMap]
  constructor
  · rintro ⟨a, ha, hf⟩
    cases a <;> simp at hf
    subst hf; exact ha
  · intro hx
    exact ⟨_, hx, rfl⟩

theorem toMachines_absent (c : Crew) (kvs : List (String × V))
    (h : lookup "to" kvs = none) : toMachines c (.obj kvs) = allMachines c := by
  simp only [toMachines, h]

/-- Recipients are presented the message at most once: the list the crew iterates has no repetition
    and the same members as the routing target. -/
theorem dedup_nodup (l : List String) : (dedup l).Nodup := by
  exact Sio.dedup_nodup l

theorem mem_dedup (l : List String) (x : String) : x ∈ dedup l ↔ x ∈ l := by
  exact Sio.mem_dedup l x

/-- A machine that is not addressed is not touched by a round (no captain operation involved):
    it sees nothing. -/
theorem runMachines_untouched (resolve : V → Option Spec) (c : Crew) (msg : V) (mid : String)
    (h : mid ∉ toMachines c msg) :
    find mid (runMachines resolve (fun _ => none) c msg).1.machines = find mid c.machines := by
  rw [runMachines_eq]
  exact rmFold_find_notin resolve msg mid _ (c, []) (by rw [Sio.mem_dedup]; exact h)

/-- An addressed ordinary machine with a spec is presented the message exactly once: after the
    round its state is the result of exactly one walk of that one message from its previous state
    (or unchanged if that walk went nowhere). -/
theorem runMachines_walks_once (resolve : V → Option Spec) (c : Crew) (msg : V) (mid : String)
    (m : Machine) (spec : Spec)
    (hin : mid ∈ toMachines c msg) (hc : mid ≠ captainId) (ht : mid ≠ timersId)
    (hm : find mid c.machines = some m) (hs : m.spec = some spec) :
    let w := walk spec m.state [msg] c.limit (fun _ => false)
    find mid (runMachines resolve (fun _ => none) c msg).1.machines =
      some (match lastTo w.strides with
            | some t => { m with state := stateCopy t }
            | none => m) := by
  intro w
  rw [runMachines_eq]
  have hin' : mid ∈ dedup (toMachines c msg) := by rw [Sio.mem_dedup]; exact hin
  obtain ⟨l1, l2, hl⟩ := List.append_of_mem hin'
  have hnd := Sio.dedup_nodup (toMachines c msg)
  rw [hl] at hnd ⊢
  have hn1 : mid ∉ l1 := by
    intro hx
    have := (List.nodup_append.mp hnd).2.2 mid hx mid (by simp)
    exact this rfl
  have hn2 : mid ∉ l2 := by
    have := (List.nodup_append.mp hnd).2.1
    exact (List.nodup_cons.mp this).1
  simp only [List.foldl_append, List.foldl_cons]
  rw [rmFold_find_notin resolve msg mid l2 _ hn2]
  have hm1 := rmFold_find_notin resolve msg mid l1 (c, []) hn1
  have hl1 := rmFold_limit resolve msg l1 (c, [])
  rw [rmStep_find_self resolve _ msg _ mid m spec hc ht (hm1.trans hm) hs, hl1]
  rfl

/-- Breadth first: one round processes the oldest pending message, appends what was emitted to the
    end of the queue and reports each emitted batch exactly once. -/
theorem bfs_step (resolve : V → Option Spec) (asOp : V → Option CrewOp) (n : Nat) (c : Crew)
    (msg : V) (pending : List V) (acc : List (List V)) :
    bfs resolve asOp (n+1) c (msg :: pending) acc =
      bfs resolve asOp n (runMachines resolve asOp c msg).1
        (pending ++ (runMachines resolve asOp c msg).2.flatten)
        (acc ++ (runMachines resolve asOp c msg).2) := by
  simp only [bfs]

/-- instrumented loop: the messages processed, in order -/
def processed (resolve : V → Option Spec) (asOp : V → Option CrewOp) :
    Nat → Crew → List V → List V → Option (List V)
  | 0, _, _ :: _, _ => none
  | _, _, [], acc => some acc
  | n+1, c, msg :: pending, acc =>
    let r := runMachines resolve asOp c msg
    processed resolve asOp n r.1 (pending ++ r.2.flatten) (acc ++ [msg])

/-- the loop and its instrumented twin, for any queue and accumulators -/
theorem bfs_processed (resolve : V → Option Spec) (asOp : V → Option CrewOp) (n : Nat) :
    ∀ (c c' : Crew) (pending : List V) (acc em : List (List V)) (accP : List V),
      bfs resolve asOp n c pending acc = some (c', em) →
      ∃ em', em = acc ++ em' ∧
        processed resolve asOp n c pending accP = some (accP ++ pending ++ em'.flatten) := by
  induction n with
  | zero =>
    intro c c' pending acc em accP h
    cases pending with
    | nil =>
      simp only [bfs, Option.some.injEq, Prod.mk.injEq] at h
      exact ⟨[], by simp [h.2], by simp [processed]⟩
    | cons _ _ => simp [bfs] at h
  | succ n ih =>
    intro c c' pending acc em accP h
    cases pending with
    | nil =>
      simp only [bfs, Option.some.injEq, Prod.mk.injEq] at h
      exact ⟨[], by simp [h.2], by simp [processed]⟩
    | cons msg rest =>
      simp only [bfs] at h
      obtain ⟨em'', he, hp⟩ := ih _ c' _ _ em (accP ++ [msg]) h
      refine ⟨(runMachines resolve asOp c msg).2 ++ em'', by rw [he, List.append_assoc], ?_⟩
      simp only [processed]
      rw [hp]
      simp [List.flatten_append, List.append_assoc]

/-- Every emitted message is fed back and processed exactly once, in emission order, after
    everything emitted before it: the processed sequence is the inbound message followed by the
    reported emissions, flattened. -/
theorem emitted_processed_once (resolve : V → Option Spec) (asOp : V → Option CrewOp) (n : Nat)
    (c c' : Crew) (msg : V) (em : List (List V))
    (h : bfs resolve asOp n c [msg] [] = some (c', em)) :
    processed resolve asOp n c [msg] [] = some (msg :: em.flatten) := by
  obtain ⟨em', he, hp⟩ := bfs_processed resolve asOp n c c' [msg] [] em [] h
  simp only [List.nil_append] at he
  subst he
  rw [hp]; rfl

/-- mcrew: a string target names exactly one machine; the reserved service names reach no machine;
    anything else reaches every machine. -/
theorem mcrew_route_id (s : MCrew.Svc) (kvs : List (String × V)) (t : String)
    (h : lookup "to" kvs = some (.str t)) (hr : t ≠ "ws" ∧ t ≠ "http" ∧ t ≠ "timers") :
    MCrew.route s (.obj kvs) = [t] := by
  obtain ⟨h1, h2, h3⟩ := hr
  simp [MCrew.route, h, h1, h2, h3]

theorem mcrew_route_reserved (s : MCrew.Svc) (kvs : List (String × V)) (t : String)
    (h : lookup "to" kvs = some (.str t)) (hr : t = "ws" ∨ t = "http" ∨ t = "timers") :
    MCrew.route s (.obj kvs) = [] := by
  rcases hr with hr | hr | hr <;> subst hr <;> simp [MCrew.route, h]

end Sheens.C14
