import Sheens.SioCrew

/-! Property C14 — theorems (in progress). -/
