#!/bin/sh
# Run the seeded sweep in a `vp run --with-repo` snapshot: the snapshot of /verif is pointed at the
# snapshot of /repo ($VP_RUN_REPO), built, and tools_seeded.py is run there.  Results (meta.json
# "detected_by") are records of that run, not evidence; copy them back with tools_seeded_collect.py.
set -e
export VERIF_REPO="${VP_RUN_REPO:?run under vp run --with-repo}"
sed -i "s#=> /repo#=> $VERIF_REPO#" go/go.mod
./setup.sh > setup.log 2>&1
python3 tools_seeded.py "$@"
