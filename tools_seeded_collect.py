#!/usr/bin/env python3
"""Copy the detection records of a background seeded sweep (vp run --with-repo -- ./tools_seeded_bg.sh)
from the run's snapshot into /verif/seeded/<id>/meta.json, noting the commit the sweep ran at.
usage: tools_seeded_collect.py /root/.vp/runs/<n>/verif <commit>"""
import json, os, sys, glob
src, commit = sys.argv[1], sys.argv[2]
here = os.path.dirname(os.path.abspath(__file__))
n = 0
for d in sorted(glob.glob(os.path.join(src, "seeded", "*"))):
    sid = os.path.basename(d)
    mine = os.path.join(here, "seeded", sid, "meta.json")
    theirs = os.path.join(d, "meta.json")
    if not (os.path.exists(mine) and os.path.exists(theirs)):
        continue
    t = json.load(open(theirs))
    m = json.load(open(mine))
    if "detected_by" in t and t.get("detected_by") != m.get("detected_by_sweep"):
        m["detected_by"] = t["detected_by"]
        m["detected_by_run"] = "background sweep (vp run --with-repo) at /verif commit " + commit
        json.dump(m, open(mine, "w"), indent=1)
        n += 1
print("updated", n)
