"""Core of ./check: orchestration, evidence, violation protocol."""
import argparse, collections, fcntl, hashlib, json, os, re, shutil, subprocess, sys, time

VERIF = os.path.dirname(os.path.dirname(os.path.abspath(__file__)))
REPO = os.environ.get("VERIF_REPO", "/repo")
LEAN = os.path.join(VERIF, "lean")
GOH = os.path.join(VERIF, "go")
BUILD = os.path.join(VERIF, "build")
EVID = os.path.join(VERIF, "evidence")
REPLAYS = os.path.join(EVID, "replays")
DRIVER = os.path.join(LEAN, ".lake", "build", "bin", "driver")
HARNESS = os.path.join(BUILD, "harness")
EMITTER = os.path.join(BUILD, "emitter")

GOENV = dict(os.environ, GOFLAGS="-mod=mod", GOPROXY="off", GOSUMDB="off", GOTOOLCHAIN="local",
             CGO_ENABLED=os.environ.get("CGO_ENABLED", "0"), VERIF_EMITTER=os.path.join(BUILD, "emitter"))

ALLOWED_AXIOMS = {"propext", "Classical.choice", "Quot.sound"}
FORBIDDEN = re.compile(r"\b(sorry|admit|native_decide|bv_decide|implemented_by|unsafe)\b|^\s*axiom\s|maxHeartbeats\s+0")

TRUSTED_BASE = [
    "Lean 4.33.0 kernel (and leanchecker in the thorough tier)",
    "axioms used by the property theorems: subset of {propext, Classical.choice, Quot.sound}; no sorry/admit/native_decide/bv_decide/own axioms (grep + #print axioms on every run)",
    "hand-written Lean models of the anchored Go code; tied to /repo by the differential correspondence run (testing, bounded by the generators) and by the regenerated facts (go/ast extractor)",
    "go/factgen extractor, Go harness (generators, canonicaliser, DSL compilers), Lean wire codec",
    "modelled not verified: goja, encoding/json, YAML loaders, Go maps/sync/atomic/context/time/scheduler/memory model, bbolt, os/exec",
]


class Lock:
    def __init__(self, name):
        os.makedirs(BUILD, exist_ok=True)
        self.path = os.path.join(BUILD, name + ".lock")
    def __enter__(self):
        self.f = open(self.path, "w")
        fcntl.flock(self.f, fcntl.LOCK_EX)
        return self
    def __exit__(self, *a):
        fcntl.flock(self.f, fcntl.LOCK_UN)
        self.f.close()


def sh(cmd, cwd=None, env=None, timeout=None, inp=None):
    p = subprocess.run(cmd, cwd=cwd, env=env, timeout=timeout, input=inp,
                       stdout=subprocess.PIPE, stderr=subprocess.STDOUT, text=True)
    return p.returncode, p.stdout


# ---------------------------------------------------------------------------
# building

def build_go(log):
    """Rebuild the harness against /repo's current working tree."""
    with Lock("go"):
        t = time.time()
        rc, out = sh(["go", "build", "-o", HARNESS, "./cmd/harness"], cwd=GOH, env=GOENV, timeout=600)
        if rc == 0:
            rc, out = sh(["go", "build", "-o", EMITTER, "./cmd/emitter"], cwd=GOH, env=GOENV, timeout=600)
        log.append("go build harness: rc=%d %.1fs" % (rc, time.time() - t))
        if rc != 0:
            log.append(out[-4000:])
        return rc == 0, out


HARNESS_RACE = os.path.join(BUILD, "harness-race")


def build_go_race(log):
    """thorough tier: a -race build of the harness for the runs that exercise concurrency"""
    with Lock("go"):
        t = time.time()
        rc, out = sh(["go", "build", "-race", "-o", HARNESS_RACE, "./cmd/harness"], cwd=GOH,
                     env=dict(GOENV, CGO_ENABLED="1"), timeout=1200)
        log.append("go build -race harness: rc=%d %.1fs" % (rc, time.time() - t))
        if rc != 0:
            log.append(out[-2000:])
        return rc == 0


def regen_facts(log):
    """Tie B: re-extract the facts from the current sources into Sheens/Gen/Facts.lean."""
    gen = os.path.join(LEAN, "Sheens", "Gen", "Facts.lean")
    fg = os.path.join(GOH, "factgen")
    if not os.path.isdir(fg):
        return True, ""
    with Lock("go"):
        rc, out = sh(["go", "run", "./factgen", "-repo", REPO, "-out", gen + ".new"], cwd=GOH, env=GOENV, timeout=600)
    if rc != 0:
        log.append("factgen failed: " + out[-2000:])
        return False, out
    new = open(gen + ".new").read()
    old = open(gen).read() if os.path.exists(gen) else None
    if new != old:
        os.replace(gen + ".new", gen)
    else:
        os.remove(gen + ".new")
    return True, ""


def regen_goast(log):
    """Tie C: re-translate the Go declarations into the abstract syntax of Sheens/GoSem.lean
    (Sheens/Gen/GoAst.lean); the file is only replaced when its content changes, so an unchanged
    source costs no rebuild."""
    gen = os.path.join(LEAN, "Sheens", "Gen", "GoAst.lean")
    with Lock("go"):
        rc, out = sh(["go", "run", "./go2lean", "-repo", REPO, "-out", gen + ".new"], cwd=GOH, env=GOENV, timeout=600)
    if rc != 0:
        log.append("go2lean failed: " + out[-2000:])
        return False, out
    new = open(gen + ".new").read()
    old = open(gen).read() if os.path.exists(gen) else None
    if new != old:
        os.replace(gen + ".new", gen)
    else:
        os.remove(gen + ".new")
    m = re.search(r"def unsupported : List String := \[(.*)\]", new)
    return True, (m.group(1) if m else "")


def lake_build(targets, log, timeout=3000):
    t = time.time()
    rc, out = sh(["lake", "build"] + targets, cwd=LEAN, timeout=timeout)
    log.append("lake build %s: rc=%d %.1fs" % (" ".join(targets), rc, time.time() - t))
    return rc == 0, out


def forbidden_tokens():
    """grep the Lean sources for proof escapes (comments excluded)."""
    hits = []
    for root, _, files in os.walk(os.path.join(LEAN, "Sheens")):
        for fn in files:
            if not fn.endswith(".lean"):
                continue
            path = os.path.join(root, fn)
            src = open(path).read()
            src = re.sub(r"/-.*?-/", lambda m: "\n" * m.group(0).count("\n"), src, flags=re.S)
            for i, line in enumerate(src.split("\n"), 1):
                code = re.sub(r'"(\\.|[^"\\])*"', '""', line).split("--")[0]  # string literals cannot hide an escape
                if FORBIDDEN.search(code):
                    hits.append("%s:%d: %s" % (os.path.relpath(path, VERIF), i, line.strip()))
    return hits


def audit_axioms(pid, modules, theorems, log):
    """#print axioms for every property theorem; returns {theorem: [axioms]} (None = missing)."""
    os.makedirs(os.path.join(BUILD, "audit"), exist_ok=True)
    path = os.path.join(BUILD, "audit", "Audit_%s_%d.lean" % (pid, os.getpid()))
    with open(path, "w") as f:
        for m in modules:
            f.write("import %s\n" % m)
        for th in theorems:
            f.write("#print axioms %s\n" % th)
    rc, out = sh(["lake", "env", "lean", path], cwd=LEAN, timeout=1200)
    os.remove(path)
    res = {th: None for th in theorems}
    # output: "'name' depends on axioms: [a, b]" or "'name' does not depend on any axioms"
    flat = re.sub(r"\s+", " ", out)
    for th in theorems:
        m = re.search(r"'%s' depends on axioms: \[([^\]]*)\]" % re.escape(th), flat)
        if m:
            res[th] = [a.strip() for a in m.group(1).split(",") if a.strip()]
        elif re.search(r"'%s' does not depend on any axioms" % re.escape(th), flat):
            res[th] = []
    if rc != 0:
        log.append("audit rc=%d: %s" % (rc, out[-1500:]))
    return res


# ---------------------------------------------------------------------------
# correspondence runs

LAST_STDERR = [""]


def fatal_race_of(stderr):
    """The Go runtime's own detection of unsynchronised map access ("fatal error: concurrent map …")
    kills the process; it is a data race observed without the race detector.  Returns a failing
    input in the shape of the -race probe's, or None."""
    m = re.search(r"fatal error: (concurrent map[^\n]*)", stderr or "")
    if not m and "WARNING: DATA RACE" in (stderr or ""):
        # a -race build that went on after a reported race and then crashed inside the racing code
        m = re.search(r"(panic: runtime error: [^\n]*)", stderr)
    if not m and re.search(r"panic: runtime error[^\n]*\n(?:\[signal[^\n]*\n)?\ngoroutine \d+ \[running\]:\ngithub.com/Comcast/sheens/sio\.\(\*Timers\)\.changed", stderr or ""):
        # the timer goroutine's unsynchronised write to the crew's change cache read garbage
        m = re.search(r"(panic: runtime error: [^\n]*)", stderr)
    if not m:
        return None
    frames = sorted(set(re.findall(r"^(github.com/Comcast/sheens/\S+?)\(", stderr, flags=re.M)))
    short = "\n".join(l for l in stderr.split("\n") if "fatal error" in l or "Comcast/sheens" in l)[:3000]
    return {"race": "WARNING: DATA RACE (runtime fatal: %s)\n%s" % (m.group(1), short), "frames": frames, "op": "runtime fatal error"}


def run_harness(op, args, workdir, tag, log, timeout=3000, binary=None, env=None):
    """Run the Go harness; a fatal crash (e.g. stack overflow) is attributed to the running case,
    which is then re-run marked as crashed."""
    lines = os.path.join(workdir, tag + ".jsonl")
    prog = os.path.join(workdir, tag + ".progress")
    crashed = []
    for attempt in range(12):
        cmd = [binary or HARNESS, op] + args + ["-progress", prog]
        if crashed:
            cmd += ["-crashed", ",".join(map(str, crashed))]
        with open(lines, "w") as f:
            try:
                p = subprocess.run(cmd, stdout=f, stderr=subprocess.PIPE, text=True, timeout=timeout,
                                   env=dict(env or GOENV, GOMEMLIMIT="3GiB"))
            except subprocess.TimeoutExpired:
                log.append("harness %s timed out" % op)
                return lines, crashed, False
        if p.returncode == 0:
            return lines, crashed, True
        LAST_STDERR[0] = p.stderr
        try:
            idx = int(open(prog).read().strip())
        except Exception:
            log.append("harness %s failed rc=%d: %s" % (op, p.returncode, p.stderr[-1500:]))
            return lines, crashed, False
        if idx in crashed:
            log.append("harness %s failed again at case %d: %s" % (op, idx, p.stderr[-800:]))
            return lines, crashed, False
        log.append("harness %s: process died at case %d (%s); re-running with that case marked" %
                   (op, idx, (p.stderr.strip().split("\n") or [""])[0][:200]))
        crashed.append(idx)
    # Too many cases kill the process to attribute them one by one.  The ones found are concrete
    # failing inputs already: run the prefix that ends with the last of them, so that their lines
    # (marked as crashed) reach the oracles.
    if crashed and "-n" in args:
        k = args.index("-n")
        short = list(args)
        short[k + 1] = str(max(max(crashed) + 1, 0))
        cmd = [binary or HARNESS, op] + short + ["-progress", prog, "-crashed", ",".join(map(str, crashed))]
        with open(lines, "w") as f:
            try:
                p = subprocess.run(cmd, stdout=f, stderr=subprocess.PIPE, text=True, timeout=timeout,
                                   env=dict(env or GOENV, GOMEMLIMIT="3GiB"))
            except subprocess.TimeoutExpired:
                return lines, crashed, False
        log.append("harness %s: %d cases kill the process; ran the first %s cases with them marked (rc=%d)" %
                   (op, len(crashed), short[k + 1], p.returncode))
        return lines, crashed, p.returncode == 0
    return lines, crashed, False


def run_overlay_test(pkg_rel, overlay_map, test_name, gen_op, gen_args, workdir, tag, log, timeout=3000, race=False, cases_file=None):
    """Cases are generated by the harness (`gen_op`), executed by a test file that is *added* to a
    package of /repo at build time with `go test -overlay` (access to package main and unexported
    fields; nothing is written into /repo), and come back as lines for the Lean driver."""
    cases = os.path.join(workdir, tag + ".cases.jsonl")
    lines = os.path.join(workdir, tag + ".jsonl")
    if cases_file:
        shutil.copy(cases_file, cases)
    else:
        with open(cases, "w") as f:
            p = subprocess.run([HARNESS, gen_op] + gen_args, stdout=f, stderr=subprocess.PIPE, text=True, env=GOENV, timeout=timeout)
        if p.returncode != 0:
            log.append("case generation %s failed: %s" % (gen_op, p.stderr[-800:]))
            return lines, False
    ov = os.path.join(workdir, tag + ".overlay.json")
    with open(ov, "w") as f:
        json.dump({"Replace": {os.path.join(REPO, k): os.path.join(VERIF, v) for k, v in overlay_map.items()}}, f)
    env = dict(GOENV, VERIF_CASES=cases, VERIF_OUT=lines)
    cmd = ["go", "test", "-overlay", ov, "-vet=off", "-count=1", "-run", test_name, "."]
    if race:
        env["CGO_ENABLED"] = "1"
        cmd.insert(2, "-race")
    t = time.time()
    rc, out = sh(cmd, cwd=os.path.join(REPO, pkg_rel), env=env, timeout=timeout)
    log.append("go test -overlay %s %s: rc=%d %.1fs" % (pkg_rel, test_name, rc, time.time() - t))
    if rc != 0:
        log.append(out[-3000:])
        return lines, False
    return lines, os.path.exists(lines)


def run_driver(lines, log, timeout=3000):
    outp = lines + ".out"
    with open(lines) as fin, open(outp, "w") as fout:
        p = subprocess.run([DRIVER], stdin=fin, stdout=fout, stderr=subprocess.PIPE, text=True, timeout=timeout)
    if p.returncode != 0:
        log.append("driver rc=%d %s" % (p.returncode, p.stderr[-1000:]))
        return None
    return outp


def read_pairs(lines, outp):
    with open(lines) as a, open(outp) as b:
        for la, lb in zip(a, b):
            la = la.strip()
            if not la:
                continue
            try:
                yield json.loads(la), json.loads(lb)
            except Exception as e:
                yield {"raw": la[:500]}, {"error": "unparsable: %s" % e}


# ---------------------------------------------------------------------------
# findings

def load_known():
    p = os.path.join(VERIF, "known_findings.json")
    if not os.path.exists(p):
        return []
    return json.load(open(p)).get("findings", [])


def write_replay(pid, kind, payload):
    os.makedirs(REPLAYS, exist_ok=True)
    blob = json.dumps(payload, sort_keys=True)
    h = hashlib.sha1(blob.encode()).hexdigest()[:12]
    path = os.path.join(REPLAYS, "%s-%s-%s.json" % (pid, kind, h))
    with open(path, "w") as f:
        json.dump(payload, f, indent=1, sort_keys=True)
    return path


class Result:
    """Accumulates what one check run saw."""
    def __init__(self, pid, tier, seed):
        self.pid, self.tier, self.seed = pid, tier, seed
        self.log = []
        self.evaluations = 0
        self.keys = set()
        self.feat = collections.Counter()
        self.samples = []
        self.failing = []        # (oracle, input, verdict): property conclusion false on the implementation's output
        self.diffs = []          # (input, verdict): model and implementation disagree (in domain)
        self.explained_elsewhere = {}  # finding id of another property -> disagreements it explains
        self.broken = []         # names of proof obligations / ties that no longer check
        self.obligations = []    # (name, discharged: bool, detail)
        self.known_hits = collections.OrderedDict()
        self.stale_known = []
        self.extra = {}
        self.exhaustive = False
        self.traces_validated = 0

    def oblige(self, name, ok, detail=""):
        self.obligations.append((name, bool(ok), detail))
        if not ok:
            self.broken.append(name)


def main(argv):
    ap = argparse.ArgumentParser()
    ap.add_argument("pid")
    ap.add_argument("--tier", default=os.environ.get("VERIF_TIER", "quick"))
    ap.add_argument("--replay")
    ap.add_argument("--keep", action="store_true")
    args = ap.parse_args(argv)
    from registry import PROPS
    if args.pid == "all":
        rc = 0
        for pid in sorted(PROPS):
            rc |= main([pid, "--tier", args.tier])
        return rc
    if args.pid not in PROPS:
        print("unknown property", args.pid)
        return 2
    spec = PROPS[args.pid]
    seed = int(os.environ.get("VERIF_SEED", "1"))
    tier = args.tier if args.tier in ("quick", "thorough") else "quick"
    t0 = time.time()
    res = Result(args.pid, tier, seed)
    workdir = os.path.join(BUILD, "run", "%s-%d" % (args.pid, os.getpid()))
    os.makedirs(workdir, exist_ok=True)
    try:
        if args.replay:
            return do_replay(spec, args.replay, res, workdir)
        run_check(spec, res, workdir)
        if spec.get("confirm"):
            spec["confirm"](res, workdir)
        rc = conclude(spec, res, t0)
    finally:
        if not args.keep:
            shutil.rmtree(workdir, ignore_errors=True)
    return rc


def run_check(spec, res, workdir):
    pid, tier, seed, log = res.pid, res.tier, res.seed, res.log
    # ---- proof obligations -------------------------------------------------
    with Lock("lake"):
        ok, _ = regen_facts(log)
        res.oblige("factgen:extract", ok, "go/ast fact extraction from the working tree")
        okt, uns = regen_goast(log)
        res.oblige("go2lean:translate", okt, "Go declarations translated into Sheens/Gen/GoAst.lean" + ((" (unsupported constructs: %s)" % uns) if okt and uns else ""))
        targets = ["driver"] + spec.get("modules", [])
        ok, out = lake_build(targets, log)
        if not ok:
            failed = re.findall(r"^- (\S+)", out, flags=re.M)
            log.append("lake build failed: %s\n%s" % (failed, out[-3000:]))
            okd, outd = lake_build(["driver"], log)
            if not okd:
                res.oblige("lean:driver-builds", False, outd[-500:])
            for m in spec.get("modules", []):
                okm, outm = lake_build([m], log)
                res.oblige("lean:module:" + m, okm, outm[-800:] if not okm else "")
        else:
            for m in spec.get("modules", []):
                res.oblige("lean:module:" + m, True)
        if spec.get("facts"):
            okf, outf = lake_build(["Sheens.Props.FactsOK"], log)
            failing_names = facts_failing(outf) if not okf else set()
            if not okf and not failing_names:
                failing_names = set(spec["facts"])  # the file does not even elaborate
                log.append("FactsOK failed without attributable theorem: " + outf[-1500:])
            for th in spec["facts"]:
                res.oblige("facts:" + th, th not in failing_names,
                           "the facts regenerated from the working tree no longer satisfy this theorem" if th in failing_names else "")
        hits = forbidden_tokens()
        res.oblige("lean:no-proof-escapes", not hits, "; ".join(hits[:5]))
        theorems = list(spec.get("theorems", [])) + [t for t in theorems_of_modules(spec.get("modules", [])) if t not in spec.get("theorems", [])]
        res.extra["theorems"] = theorems
        # theorems of a module that no longer builds are not checked; the others are audited
        failed_mods = [n[len("lean:module:"):] for n, o, _ in res.obligations if n.startswith("lean:module:") and not o]
        lost = set(theorems_of_modules(failed_mods)) if failed_mods else set()
        good_mods = [m for m in spec.get("modules", []) if m not in failed_mods]
        live = [th for th in theorems if th not in lost]
        if live and good_mods:
            ax = audit_axioms(pid, good_mods, live, log)
            for th in live:
                a = ax.get(th)
                good = a is not None and set(a) <= ALLOWED_AXIOMS
                res.oblige("theorem:" + th, good, "axioms=%s" % a)
            res.extra["axioms"] = ax
        for th in theorems:
            if th in lost or not good_mods:
                res.oblige("theorem:" + th, False, "module did not build")
        if tier == "thorough" and spec.get("modules"):
            for m in spec["modules"]:
                rc, out = sh(["lake", "env", "leanchecker", m], cwd=LEAN, timeout=3000)
                res.oblige("leanchecker:" + m, rc == 0, out[-300:] if rc else "")
    # ---- correspondence ----------------------------------------------------
    okgo, out = build_go(log)
    if not okgo:
        res.oblige("harness:builds-against-repo", False, out[-800:])
        return
    runs = spec.get("runs", {}).get(tier) or spec.get("runs", {}).get("quick", [])
    analyze = spec.get("analyze")
    corr_ok = True
    for i, run in enumerate(runs):
        op, rargs = run[0], list(run[1])
        opts = run[2] if len(run) > 2 else {}
        rseed = seed * 1000003 + i * 7919
        rargs = ["-seed", str(rseed)] + rargs
        cp = corpus_file(pid, workdir, op, first=(i == 0))
        if cp and not opts.get("runner") and not opts.get("overlay"):
            rargs += ["-corpus", cp]
        binary = None
        if opts.get("runner"):
            okr = opts["runner"](res, workdir, rseed, rargs, opts)
            corr_ok = corr_ok and okr
            continue
        if opts.get("overlay"):
            o = opts["overlay"]
            lines, okh = run_overlay_test(o["pkg"], o["files"], o["test"], op, rargs, workdir, "%s-%d" % (op, i), log,
                                          race=(o.get("race") and tier == "thorough"))
        else:
            if opts.get("race") and tier == "thorough":
                # a data race reported by the detector makes the process exit non-zero: the run does
                # not complete and the obligation is reported as broken with the detector's output
                if build_go_race(log):
                    binary = HARNESS_RACE
            lines, crashed, okh = run_harness(op, rargs, workdir, "%s-%d" % (op, i), log, binary=binary,
                                              env=(dict(GOENV, GORACE="halt_on_error=1 exitcode=66") if binary else None))
        retries = 0
        while not okh and not opts.get("overlay") and retries < 3:
            fr = fatal_race_of(LAST_STDERR[0])
            if fr is None:
                break
            # the run died of the data race itself: that is a failing input; run again for the rest
            res.failing.append(("probe:dataRace", dict(fr, args=rargs), {"corr": True}))
            LAST_STDERR[0] = ""
            retries += 1
            lines, crashed, okh = run_harness(op, rargs, workdir, "%s-%d-r%d" % (op, i, retries), log, binary=binary,
                                              env=(dict(GOENV, GORACE="halt_on_error=1 exitcode=66") if binary else None))
        if not okh:
            res.oblige("harness:run:%s#%d" % (op, i), False, "harness did not complete")
            continue
        outp = run_driver(lines, log)
        if outp is None:
            res.oblige("driver:run:%s#%d" % (op, i), False, "driver failed")
            continue
        for inp, ver in read_pairs(lines, outp):
            res.evaluations += 1
            if "error" in ver:
                res.diffs.append((inp, ver))
                continue
            key = ver.get("key")
            if ver.get("nontrivial") and key is not None:
                res.keys.add(hashlib.sha1(key.encode()).digest()[:10])
            for f in ver.get("feat", []):
                res.feat[f] += 1
            if len(res.samples) < 4 and ver.get("nontrivial"):
                res.samples.append({k: inp[k] for k in inp if k not in ("go",)} | {"impl": inp.get("go")})
            analyze(spec, res, inp, ver)
    # a broken tie is the trigger for a wider search for a concrete failing input: the thorough
    # runs (other seeds, more cases), looking only at the oracles on the implementation's outputs
    def _explained(inp, ver):
        from registry import SIGNATURES
        return any(SIGNATURES.get(k.get("signature")) and SIGNATURES[k["signature"]]("corr", inp, ver)
                   for k in load_known() if k.get("status") == "known")
    tie_broken = bool(res.extra.get("tr_diffs")) or any(not _explained(i, v) for i, v in res.diffs) or any(not ok for n, ok, _ in res.obligations if n.startswith(("facts:", "lean:", "theorem:")))
    if tie_broken and not res.failing and tier == "quick" and spec.get("runs", {}).get("thorough"):
        t_search = time.time()
        for i, run in enumerate(spec["runs"]["thorough"]):
            if time.time() - t_search > 120 or res.failing:
                break
            op, rargs = run[0], list(run[1])
            opts = run[2] if len(run) > 2 else {}
            if "-n" in rargs:
                k = rargs.index("-n")
                rargs[k + 1] = str(min(int(rargs[k + 1]), 40000))
            rargs = ["-seed", str(seed * 7 + 13 + i)] + rargs
            if opts.get("overlay"):
                o = opts["overlay"]
                lines, okh = run_overlay_test(o["pkg"], o["files"], o["test"], op, rargs, workdir, "search-%s-%d" % (op, i), log)
            else:
                lines, crashed, okh = run_harness(op, rargs, workdir, "search-%s-%d" % (op, i), log, timeout=300)
            if not okh:
                continue
            outp = run_driver(lines, log)
            if outp is None:
                continue
            keep_diffs = list(res.diffs)
            for inp, ver in read_pairs(lines, outp):
                if "error" not in ver:
                    analyze(spec, res, inp, ver)
            res.diffs = keep_diffs
        log.append("failing-input search: %d found in %.0fs" % (len(res.failing), time.time() - t_search))
    if res.diffs:
        corr_ok = False
    trd = res.extra.get("tr_diffs")
    if res.extra.get("tr_evals"):
        res.extra.setdefault("coverage", {})["translated_source_evaluations"] = res.extra["tr_evals"]
        res.oblige("translated:source-agrees-with-model", not trd,
                   ("the functions regenerated from the Go source (go2lean + GoSem interpreter: match/match.go, tools/analysis.go, sio/crew.go routing) and the hand-written model differ on %d case(s); first: %s"
                    % (len(trd), json.dumps(trd[0])[:600])) if trd else "")
    res.oblige("correspondence:" + pid, corr_ok and not res.diffs,
               "%d disagreements between model and implementation" % len(res.diffs))


def corpus_file(pid, workdir, op, first):
    """witnesses of the listed findings (first run of the property) + minimised past failures kept
    under corpus/<pid>/<op>.jsonl (cases in the op's own format); they run before the generated cases"""
    cases = []
    if first:
        for k in load_known():
            if k.get("property") == pid and k.get("witness") is not None:
                cases.append(json.dumps(k["witness"]))
    fn = os.path.join(VERIF, "corpus", pid, op + ".jsonl")
    if os.path.exists(fn):
        for l in open(fn):
            if l.strip():
                cases.append(l.strip())
    if not cases:
        return None
    path = os.path.join(workdir, "corpus-%s.jsonl" % op)
    with open(path, "w") as f:
        f.write("\n".join(cases) + "\n")
    return path


def theorems_of_modules(modules):
    """every `theorem` declared in the property modules (Sheens/Props/*.lean), with its namespace"""
    names = []
    for m in modules:
        path = os.path.join(LEAN, *m.split(".")) + ".lean"
        if not os.path.exists(path):
            continue
        ns = []
        src = open(path).read()
        src = re.sub(r"/-.*?-/", "", src, flags=re.S)
        for line in src.split("\n"):
            mm = re.match(r"\s*namespace\s+(\S+)", line)
            if mm:
                ns.append(mm.group(1))
                continue
            mm = re.match(r"\s*end\s+(\S+)", line)
            if mm and ns and ns[-1] == mm.group(1):
                ns.pop()
                continue
            mm = re.match(r"\s*(?:private\s+|protected\s+)?theorem\s+(\S+)", line)
            if mm:
                names.append(".".join(ns + [mm.group(1)]))
    return names


def facts_failing(out):
    """names of FactsOK theorems whose `decide` failed, from the build output"""
    names = set()
    # lean error lines look like: error: Sheens/Props/FactsOK.lean:LINE:COL: ...
    lines_no = [int(x) for x in re.findall(r"FactsOK\.lean:(\d+):", out)]
    src_path = os.path.join(LEAN, "Sheens", "Props", "FactsOK.lean")
    if not os.path.exists(src_path):
        return names
    src = open(src_path).read().split("\n")
    for ln in lines_no:
        for j in range(min(ln, len(src)) - 1, -1, -1):
            m = re.match(r"\s*theorem\s+(\S+)", src[j])
            if m:
                names.add(m.group(1))
                break
    return names


def classify_known(spec, res):
    """Split failing inputs into known findings and new violations."""
    known = [k for k in load_known() if k.get("property") == res.pid and k.get("status") == "known"]
    from registry import SIGNATURES
    new = []
    for oracle, inp, ver in res.failing:
        hit = None
        for k in known:
            fn = SIGNATURES.get(k["signature"])
            if fn and fn(oracle, inp, ver):
                hit = k
                break
        if hit:
            res.known_hits.setdefault(hit["id"], [hit, 0, inp])
            res.known_hits[hit["id"]][1] += 1
        else:
            new.append((oracle, inp, ver))
    # diffs explained by a known finding (the model is a model of the documented behaviour)
    # A disagreement says the model does not list what the implementation did; a recorded finding of
    # *another* property explains it just as well (e.g. the matcher's order dependence, C03, seen by a
    # run that belongs to C07): it is counted, not printed as a finding of this property.
    others = [k for k in load_known() if k.get("property") != res.pid and k.get("status") == "known"]
    newdiffs = []
    for inp, ver in res.diffs:
        hit = None
        for k in known:
            fn = SIGNATURES.get(k["signature"])
            if fn and fn("corr", inp, ver):
                hit = k
                break
        if hit:
            res.known_hits.setdefault(hit["id"], [hit, 0, inp])
            res.known_hits[hit["id"]][1] += 1
            continue
        for k in others:
            fn = SIGNATURES.get(k["signature"])
            if fn and fn("corr", inp, ver):
                hit = k
                break
        if hit:
            res.explained_elsewhere[hit["id"]] = res.explained_elsewhere.get(hit["id"], 0) + 1
        else:
            newdiffs.append((inp, ver))
    return known, new, newdiffs


def conclude(spec, res, t0):
    pid = res.pid
    known, new, newdiffs = classify_known(spec, res)
    # re-evaluate: correspondence obligation is only broken by unexplained diffs
    obligations = []
    for name, ok, detail in res.obligations:
        if name == "correspondence:" + pid:
            ok = not newdiffs and not any(n.startswith(("harness:", "driver:")) and not o for n, o, _ in res.obligations)
            detail = "%d unexplained disagreements" % len(newdiffs)
        obligations.append((name, ok, detail))
    broken = [n for n, ok, _ in obligations if not ok]
    violations = 0
    lines = []
    for kid, (k, count, inp) in res.known_hits.items():
        lines.append("KNOWN-FINDING: property=%s %s [%s; reproduced on %d case(s) this run]" % (pid, k["what"], kid, count))
    if new:
        # shrink: smallest failing input first
        new.sort(key=lambda t: len(json.dumps(t[1])))
        oracle, inp, ver = new[0]
        path = write_replay(pid, "fail", {"property": pid, "kind": "failing-input", "oracle": oracle,
                                          "case": inp, "verdict": ver, "others": len(new) - 1,
                                          "broken_obligations": broken})
        lines.append("VIOLATION property=%s replay=%s" % (pid, path))
        violations = len(new)
    elif broken:
        first_diff = newdiffs[0] if newdiffs else None
        path = write_replay(pid, "broken", {"property": pid, "kind": "obligation-no-longer-checks",
                                            "broken_obligations": broken,
                                            "details": {n: d for n, ok, d in obligations if not ok},
                                            "first_disagreement": {"case": first_diff[0], "verdict": first_diff[1]} if first_diff else None,
                                            "log": res.log[-20:]})
        lines.append("VIOLATION property=%s replay=%s no-failing-input-found" % (pid, path))
        violations = 1
    write_evidence(spec, res, obligations, violations, t0)
    for l in lines:
        print(l)
    if os.environ.get("VERIF_VERBOSE"):
        for l in res.log:
            print("#", l)
        print("# evaluations=%d distinct_nontrivial=%d obligations=%d discharged=%d feat=%s" % (
            res.evaluations, len(res.keys), len(obligations), sum(1 for _, ok, _ in obligations if ok), dict(res.feat)))
    return 1 if violations else 0


def write_evidence(spec, res, obligations, violations, t0):
    os.makedirs(EVID, exist_ok=True)
    nobl = len(obligations)
    ndis = sum(1 for _, ok, _ in obligations if ok)
    cov = {
        "obligations": nobl,
        "discharged": ndis,
        "checker_cmd": "cd /verif/lean && lake build %s && lake env lean <#print axioms audit>; ./check %s --tier %s" % (
            " ".join(spec.get("modules", []) + (["Sheens.Props.FactsOK"] if spec.get("facts") else [])), res.pid, res.tier),
        "trusted_base": TRUSTED_BASE + spec.get("trusted_extra", []),
        "obligation_list": [{"name": n, "discharged": ok, **({"detail": d} if d else {})} for n, ok, d in obligations],
        "theorems": res.extra.get("theorems", spec.get("theorems", [])),
        "theorem_notes": spec.get("theorem_notes", ""),
        "evaluations": res.evaluations,
        "distinct_nontrivial": len(res.keys),
        "rule": spec.get("rule", ""),
        "samples": res.samples[:4] if res.samples else [{"note": "no correspondence cases in this tier"}],
        "arm_histogram": dict(res.feat),
        "exhaustive": bool(res.exhaustive),
        "disagreements": len(res.diffs),
        "disagreements_explained_by_findings_of_other_properties": res.explained_elsewhere,
        "failing_inputs": len(res.failing),
        "known_findings_reproduced": {k: v[1] for k, v in res.known_hits.items()},
        "traces_validated_against_impl": res.traces_validated,
    }
    cov.update(res.extra.get("coverage", {}))
    ev = {
        "property_id": res.pid,
        "tier": res.tier,
        "seed": res.seed,
        "level": "proof",
        "coverage": cov,
        "assumptions": spec.get("assumptions", []),
        "wall_s": round(time.time() - t0, 2),
        "violations": violations,
    }
    path = os.path.join(EVID, res.pid + ".json")
    tmp = path + ".tmp%d" % os.getpid()
    with open(tmp, "w") as f:
        json.dump(ev, f, indent=1)
    os.replace(tmp, path)


def do_replay(spec, path, res, workdir):
    """Run the recorded case again, alone, against /repo as it is now: harness (or overlay test) on a
    one-line corpus, Lean driver, the property's oracles and probes.  Exit 1 with a VIOLATION line if
    it fails again, 0 if it does not (for an obligation-only replay file the obligations are printed)."""
    data = json.load(open(path))
    case = data.get("case") or (data.get("first_disagreement") or {}).get("case")
    if case is None:
        print(json.dumps({k: data.get(k) for k in ("property", "kind", "broken_obligations", "details")}, indent=1)[:3000])
        print("no concrete case in this replay file: re-run ./check %s to re-check the obligations" % res.pid)
        return 0
    okgo, out = build_go(res.log)
    if not okgo:
        print("go build failed:\n" + out[-2000:])
        return 2
    with Lock("lake"):
        okl, outl = lake_build(["driver"], res.log)
    if not okl:
        print("lake build driver failed:\n" + outl[-2000:])
        return 2
    op = case.get("op", "")
    bare = {k: v for k, v in case.items() if k not in ("go", "probe")}
    cf = os.path.join(workdir, "replay.case.jsonl")
    with open(cf, "w") as f:
        f.write(json.dumps(bare) + "\n")
    lines = None
    if op in ("match", "walk", "step", "crew", "expect"):
        lines, _, okh = run_harness(op, ["-n", "0", "-corpus", cf] + (["-profile", "c03", "-reps", "32"] if op == "match" else []),
                                    workdir, "replay", res.log, timeout=600)
    elif op == "timers" and case.get("impl") == "sio":
        lines, _, okh = run_harness("siotimers", ["-n", "0", "-corpus", cf], workdir, "replay", res.log, timeout=600)
    elif op == "timers":
        from registry import MCREW_TIMERS_OVERLAY as o
        lines, okh = run_overlay_test(o["pkg"], o["files"], o["test"], "timersgen", [], workdir, "replay", res.log, cases_file=cf)
    else:
        print(json.dumps(bare, indent=1)[:4000])
        print("this kind of case (op %r) has no single-case runner; it is regenerated by the seed: "
              "VERIF_SEED=%s ./check %s" % (op, os.environ.get("VERIF_SEED", "1"), res.pid))
        return 0
    if not okh:
        print("the harness did not complete on this case (crash or hang):\n" + "\n".join(res.log[-3:])[-3000:])
        print("VIOLATION property=%s replay=%s" % (res.pid, path))
        return 1
    outp = run_driver(lines, res.log)
    if outp is None:
        print("driver failed")
        return 2
    analyze = spec["analyze"]
    for inp, ver in read_pairs(lines, outp):
        analyze(spec, res, inp, ver)
        print(json.dumps({"implementation": inp.get("go"), "probe": inp.get("probe"),
                          "verdict": {k: ver.get(k) for k in ("corr", "prop", "why", "det", "sound", "planted", "model") if k in ver}})[:6000])
    known, new, newdiffs = classify_known(spec, res)
    for kid, (k, n, _) in res.known_hits.items():
        print("KNOWN-FINDING: property=%s %s [%s]" % (res.pid, k["what"], kid))
    if new:
        print("fails again: " + ", ".join(sorted(set(o for o, _, _ in new))))
        print("VIOLATION property=%s replay=%s" % (res.pid, path))
        return 1
    if newdiffs:
        print("model and implementation disagree on this case again")
        print("VIOLATION property=%s replay=%s no-failing-input-found" % (res.pid, path))
        return 1
    print("not reproduced: the case passes on the tree as it is now")
    return 0
