"""Per-property texts for MANIFEST.json."""
HOOKS = {"guard": "verif",
         "enable": "no guarded code in /repo: the harness reaches unexported code with `go test -overlay` (files added at build time, nothing written into /repo)",
         "baseline_off_cmd": "cd /repo && go test -mod=mod -vet=off -count=1 ./...",
         "source_commits": [],
         "add_only": True}
NOT_APPLICABLE = {}
NOTES = {}
