"""Per-property configuration: Lean modules and theorems, facts, harness runs, analysis."""
import json

# ---------------------------------------------------------------------------
# analysis hooks: (spec, res, input line, driver verdict)

def _note_tr(res, inp, ver):
    """the translated matcher (regenerated from the source) against the hand-written model"""
    if "tr" in ver:
        res.extra["tr_evals"] = res.extra.get("tr_evals", 0) + 1
        if ver["tr"] is False:
            res.extra.setdefault("tr_diffs", []).append({"p": inp.get("p"), "f": inp.get("f"), "bs": inp.get("bs"), "tspec": inp.get("tspec"), "diff": ver.get("trDiff")})


def analyze_match(oracles):
    def f(spec, res, inp, ver):
        if not ver.get("corr", True):
            res.diffs.append((inp, ver))
        _note_tr(res, inp, ver)
        for o in oracles:
            if o == "probe":
                pr = inp.get("probe") or {}
                for k, v in pr.items():
                    if v is False:
                        res.failing.append(("probe:" + k, inp, ver))
            elif ver.get(o) is False:
                res.failing.append((o, inp, ver))
    return f


def analyze_generic(spec, res, inp, ver):
    """driver verdicts of the form {"corr":bool, "prop":{name:bool}, ...}"""
    if not ver.get("corr", True):
        res.diffs.append((inp, ver))
    _note_tr(res, inp, ver)
    for o, v in (ver.get("prop") or {}).items():
        if v is False and (spec.get("oracles") is None or o in spec["oracles"]):
            res.failing.append((o, inp, ver))
    for o, v in (inp.get("probe") or {}).items():
        if v is False and (spec.get("probes") is None or o in spec["probes"]):
            res.failing.append(("probe:" + o, inp, ver))


# ---------------------------------------------------------------------------
# signatures of known findings: (oracle, input, verdict) -> bool

def _has_repeated_structured_var(inp):
    """pattern uses one variable at two places and the message offers structured values there"""
    p = inp.get("p")
    counts = {}
    def walk(x):
        if isinstance(x, str):
            if x.startswith("?") and x != "?" and not x.startswith("??"):
                counts[x] = counts.get(x, 0) + 1
        elif isinstance(x, list):
            for y in x:
                walk(y)
        elif isinstance(x, dict):
            for k, y in x.items():
                walk(k)
                walk(y)
    walk(p)
    return any(c > 1 for c in counts.values())


def _contains_struct(x):
    return isinstance(x, (list, dict))


def sig_c03_repeated_structured(oracle, inp, ver):
    # the model of the documented behaviour itself is order dependent on this input; Go re-randomises
    # the iteration order at every visit of a map, so within one evaluation a sub-pattern may be
    # visited in several orders and the outcome may be a mixture the model's per-map orders do not list
    if oracle not in ("det", "probe:concurrent", "probe:pure", "corr") or ver.get("modelDet") is not False:
        return False
    if not _has_repeated_structured_var(inp):
        return False
    # some result (or the message) binds the repeated variable to a structured value
    return "{" in json.dumps(inp.get("f")) or "[" in json.dumps(inp.get("f"))


def _invalid_pattern(p):
    """two variables directly in one array, or a variable key next to other keys"""
    if isinstance(p, list):
        vs = [x for x in p if isinstance(x, str) and x.startswith("?")]
        return len(vs) > 1 or any(_invalid_pattern(x) for x in p)
    if isinstance(p, dict):
        if len(p) > 1 and any(k.startswith("?") for k in p):
            return True
        return any(_invalid_pattern(v) for v in p.values())
    return False


def _has_repeated_optional_var(inp):
    counts = {}
    def walk(x):
        if isinstance(x, str):
            if x.startswith("??"):
                counts[x] = counts.get(x, 0) + 1
        elif isinstance(x, list):
            for y in x:
                walk(y)
        elif isinstance(x, dict):
            for k, y in x.items():
                walk(k)
                walk(y)
    walk(inp.get("p"))
    return any(c > 1 for c in counts.values())


def sig_c03_repeated_optional(oracle, inp, ver):
    if oracle not in ("det", "probe:concurrent", "probe:pure", "corr") or ver.get("modelDet") is not False:
        return False
    return _has_repeated_optional_var(inp)


def sig_c03_invalid_vs_nomatch(oracle, inp, ver):
    if oracle not in ("det", "probe:concurrent", "probe:pure", "corr") or ver.get("modelDet") is not False:
        return False
    if not _invalid_pattern(inp.get("p")):
        return False
    outs = ver.get("go", [])
    return any(o.startswith("err:") for o in outs) or any(o.startswith("err:") for o in ver.get("model", []))


def sig_c15_resurrect(oracle, inp, ver):
    """some spec of the case emits a captain delete and a captain update for the same machine id
    from one action (both are then processed within one ProcessMsg), and the model agrees with the
    implementation on every observation"""
    if oracle not in ("storeEqLive", "probe:storeEqLive", "probe:rebuildEquiv") or not ver.get("corr"):
        return False
    for spec in (inp.get("specs") or {}).values():
        for node in (spec.get("nodes") or {}).values():
            act = (node or {}).get("action") or {}
            dels, upds = set(), set()
            for op in act.get("ops", []):
                if op and op[0] == "emit" and isinstance(op[1], dict) and op[1].get("to") == "captain":
                    dels |= set(x for x in (op[1].get("delete") or []) if isinstance(x, str))
                    upds |= set((op[1].get("update") or {}).keys())
            if dels & upds:
                return True
    return False


def sig_c10_props(oracle, inp, ver):
    return oracle == "probe:propsUntouched" and "propsMutator" in (inp.get("feat") or [])


def sig_c17_race(oracle, inp, ver):
    """a data race one side of which is a firing sio timer goroutine (TimerEntry.run) and the other
    the crew's own processing"""
    r = inp.get("race", "")
    if oracle == "probe:dataRace" and "sio.(*TimerEntry).run" in r and "sio.(*Crew)." in r:
        return True
    # the same race seen without the detector: the crew's own marshalling of machine state
    # (GetChanged, inside ProcessMsg) panics in encoding/json because a timer goroutine deletes from
    # the live timers map underneath it
    g = inp.get("go") or {}
    st = g.get("stack", "") if isinstance(g, dict) else ""
    return (oracle in ("logAccepted", "corr") and inp.get("impl") == "sio" and bool(g.get("panic")) and
            "sio.(*Crew).GetChanged" in st and "encoding/json" in st)


def race_probe(op, extra_env=None):
    """A runner that executes one harness op in a -race build; every data race the detector reports
    with a frame of Comcast/sheens is a failing input (the schedule is the detector's report)."""
    def run(res, workdir, rseed, rargs, opts):
        import subprocess, re
        from checklib_main import build_go_race, HARNESS_RACE, GOENV
        if not build_go_race(res.log):
            res.oblige("harness:race-build", False, "go build -race failed (cgo/gcc needed)")
            return False
        env = dict(GOENV, GORACE="exitcode=66", GOMEMLIMIT="3GiB", **(extra_env or {}))
        p = subprocess.run([HARNESS_RACE, op] + rargs, stdout=subprocess.DEVNULL, stderr=subprocess.PIPE, text=True, env=env, timeout=900)
        blocks = [b for b in p.stderr.split("==================") if "WARNING: DATA RACE" in b]
        res.evaluations += 1
        res.feat["raceRun:" + op] += 1
        for b in blocks:
            frames = re.findall(r"^\s+(github.com/Comcast/sheens/\S+|main\.\S+)\(\)", b, flags=re.M)
            if not any(f.startswith("github.com/Comcast/sheens/") for f in frames):
                continue
            short = "\n".join(l for l in b.strip().split("\n") if "sheens" in l or "DATA RACE" in l or "by goroutine" in l)[:3000]
            res.failing.append(("probe:dataRace", {"race": short, "frames": sorted(set(frames)), "op": op + " -race", "args": rargs}, {"corr": True}))
        if p.returncode not in (0, 66):
            from checklib_main import fatal_race_of
            fr = fatal_race_of(p.stderr)
            if fr is not None:
                # the runtime's own "concurrent map" check ended the run: the same kind of observation
                res.failing.append(("probe:dataRace", dict(fr, args=rargs), {"corr": True}))
                return True
            res.oblige("harness:race-run", False, p.stderr[-800:])
            return False
        return True
    return run


def c17_race_probe(res, workdir, rseed, rargs, opts):
    """Run the sio timer scenarios in a -race build (the harness drives ProcessMsg from one goroutine,
    as Crew.Loop does, and does not itself touch the timer table in this run); every reported data
    race is a failing input of "timer activity never corrupts crew state"."""
    import subprocess, os, re
    from checklib_main import build_go_race, HARNESS_RACE, GOENV
    if not build_go_race(res.log):
        res.oblige("harness:race-build", False, "go build -race failed (cgo/gcc needed)")
        return False
    env = dict(GOENV, GORACE="exitcode=66", VERIF_NO_PENDING="1", GOMEMLIMIT="3GiB")
    p = subprocess.run([HARNESS_RACE, "siotimers"] + rargs, stdout=subprocess.DEVNULL, stderr=subprocess.PIPE, text=True, env=env, timeout=600)
    blocks = [b for b in p.stderr.split("==================") if "WARNING: DATA RACE" in b]
    res.evaluations += 1
    res.feat["raceRun"] += 1
    for b in blocks:
        frames = re.findall(r"^\s+(github.com/Comcast/sheens/\S+|main\.\S+)\(\)", b, flags=re.M)
        short = "\n".join(l for l in b.strip().split("\n") if "sheens" in l or "DATA RACE" in l or "by goroutine" in l)[:3000]
        res.failing.append(("probe:dataRace", {"race": short, "frames": sorted(set(frames)), "op": "siotimers -race", "args": rargs}, {"corr": True}))
    if p.returncode not in (0, 66):
        from checklib_main import fatal_race_of
        fr = fatal_race_of(p.stderr)
        if fr is not None:
            # the runtime's own "concurrent map" check ended the run: the same kind of observation
            res.failing.append(("probe:dataRace", dict(fr, args=rargs), {"corr": True}))
            return True
        res.oblige("harness:race-run", False, p.stderr[-800:])
        return False
    return True


def c19_confirm(res, workdir):
    """The expectation tool runs in real time (a subprocess, a 400 ms step timeout, 16 sessions in
    parallel): on a loaded machine a session can time out although every expected line was written.
    A disagreement of that direction only — the model says pass, the tool said fail — is run again,
    alone, twice; it is kept if the tool fails again, otherwise it is recorded in the evidence as not
    reproduced.  (A pass where the model says fail is never re-run.)"""
    import json, os
    from checklib_main import run_harness, run_driver, read_pairs
    keep, rerun = [], []
    for inp, ver in res.diffs:
        if inp.get("op") == "expect" and inp.get("go") == "fail" and ver.get("model") == "pass":
            rerun.append((inp, ver))
        else:
            keep.append((inp, ver))
    for n, (inp, ver) in enumerate(rerun[:8]):
        case = {k: v for k, v in inp.items() if k not in ("go", "probe")}
        again = False
        for attempt in range(2):
            tag = "confirm19-%d-%d" % (n, attempt)
            cf = os.path.join(workdir, tag + ".case.jsonl")
            with open(cf, "w") as f:
                f.write(json.dumps(case) + "\n")
            lines, _, okh = run_harness("expect", ["-n", "0", "-corpus", cf], workdir, tag, res.log, timeout=300)
            outp = run_driver(lines, res.log) if okh else None
            if outp is None:
                again = True
                break
            for i2, v2 in read_pairs(lines, outp):
                if not v2.get("corr", True):
                    again = True
            if again:
                break
        if again:
            keep.append((inp, ver))
        else:
            res.extra.setdefault("coverage", {}).setdefault("not_reproduced_when_run_alone", []).append(
                {"case": case, "tool": "fail", "model": "pass"})
    keep.extend(rerun[8:])
    res.diffs = keep


def c17_confirm(res, workdir):
    """`noMissedFire` is the one oracle with a deadline in it ("due for well over 60 ms and not fired"):
    a stall of the machine (this sandbox's clock and scheduler do stall) can produce it on code that
    is right.  Such a case is run again, alone, twice; it is reported if it fails again, otherwise it
    is recorded in the evidence as not reproduced.  (Safety oracles are never re-run.)"""
    import json, os
    from checklib_main import run_overlay_test, run_harness, run_driver, read_pairs
    keep, rerun = [], []
    for item in res.failing:
        oracle, inp, ver = item
        if oracle == "noMissedFire" and isinstance(inp.get("go"), dict) and not inp["go"].get("hang") and not inp["go"].get("panic"):
            rerun.append(item)
        else:
            keep.append(item)
    for n, (oracle, inp, ver) in enumerate(rerun[:6]):
        case = {k: v for k, v in inp.items() if k not in ("go",)}
        again = False
        for attempt in range(2):
            tag = "confirm-%d-%d" % (n, attempt)
            cf = os.path.join(workdir, tag + ".case.jsonl")
            with open(cf, "w") as f:
                f.write(json.dumps(case) + "\n")
            if inp.get("impl") == "mcrew":
                o = MCREW_TIMERS_OVERLAY
                lines, okh = run_overlay_test(o["pkg"], o["files"], o["test"], "timersgen", [], workdir, tag, res.log, cases_file=cf)
            else:
                lines, _, okh = run_harness("siotimers", ["-n", "0", "-corpus", cf], workdir, tag, res.log, timeout=300)
            outp = run_driver(lines, res.log) if okh else None
            if outp is None:
                again = True
                break
            for i2, v2 in read_pairs(lines, outp):
                if (v2.get("prop") or {}).get("noMissedFire") is False:
                    again = True
                    inp, ver = i2, v2
            if again:
                break
        if again:
            keep.append((oracle, inp, ver))
        else:
            res.extra.setdefault("coverage", {}).setdefault("not_reproduced_when_run_alone", []).append(
                {"oracle": oracle, "impl": inp.get("impl"), "script": inp.get("script")})
    keep.extend(rerun[6:])
    res.failing = keep


SIGNATURES = {
    "c17-sio-timer-goroutine-vs-crew-loop-race": sig_c17_race,
    "c10-props-shallow-copy": sig_c10_props,
    "c15-delete-then-recreate-within-one-round": sig_c15_resurrect,
    "c03-repeated-variable-structured-values": sig_c03_repeated_structured,
    "c03-optional-variable-used-at-several-places": sig_c03_repeated_optional,
    "c03-invalid-at-one-key-nonmatching-at-another": sig_c03_invalid_vs_nomatch,
}

# ---------------------------------------------------------------------------

MATCH_RULE = ("(pattern, message, bindings) triples built from a planted witness: a pattern in the supported fragment is "
              "generated together with an assignment and a message containing the instantiated pattern plus extra keys/elements; "
              "some messages are then perturbed, some variables pre-bound (consistently or not); a malformed stream leaves the "
              "fragment.  One PRNG (VERIF_SEED).  A case is non-trivial if it binds a variable or recurses into an array or map; "
              "distinct = distinct canonical (pattern, message, bindings) text.")

ENGINE_RULE = ("random spec graphs (<=5 nodes + optional explicit error node, <=4 ordered branches per node, patterns from a "
               "message/bindings vocabulary incl. property, optional, inequality and array variables, guards and actions from the "
               "shared action DSL rendered as ECMAScript source or as a native Go closure, @var targets, unknown targets, every "
               "combination of error settings), start states incl. nil bindings, permanent bindings and unknown nodes, 0-5 messages, "
               "limits incl. none/0/negative, breakpoints.  One PRNG (VERIF_SEED).  Non-trivial: more than one stride or an action ran; "
               "distinct = distinct canonical (spec, state, messages, limit) text.")

CREW_RULE = ("histories of 2-8 messages for a sio crew of 0-5 relay/recorder machines (1-3 generated specs; each machine counts the "
             "messages it is presented with and emits 0-2 routed or unrouted follow-ups per depth, depth <= 2): captain operations "
             "(create, re-create, replace state, replace spec, delete) interleaved with ordinary messages with every target shape "
             "(absent, id, '*', lists with unknown/repeated/non-string members, reserved names, non-container).  After every message: "
             "reported changes, emitted multiset and live view compared with the model; shadow store folded from the reports compared "
             "with the live crew; a second crew rebuilt from the store at every boundary and fed the rest.  Non-trivial: history of more than one message.")

MCREW_OVERLAY = {"pkg": "cmd/mcrew", "test": "TestVerifMCrewDriver", "race": True,
                 "files": {"cmd/mcrew/zz_verif_driver_test.go": "go/overlay/mcrew_driver_test.go"}}

MCREW_RULE = ("operation sequences of 3-12 add / remove / process operations over three machine ids and 1-2 counting specs, with the "
              "bolt store closed and reopened at random positions (every write in between fails); after every operation the in-memory "
              "crew, the stored records (read back from the bolt file) and the operation's result are compared with the model; then "
              "6 concurrent clients issue process/add/remove/read-crew requests and every counter must account for every message "
              "(no lost update) with memory equal to the store.  The service is driven in-process by a test file added with "
              "`go test -overlay`.  Non-trivial: more than two operations.")

MCREW_TIMERS_OVERLAY = {"pkg": "cmd/mcrew", "test": "TestVerifTimersDriver", "race": True,
                        "files": {"cmd/mcrew/zz_verif_timers_test.go": "go/overlay/mcrew_timers_test.go"}}

SIO_HOST_OVERLAY = {"pkg": "sio", "test": "TestVerifSioHost", "race": False,
                    "files": {"sio/zz_verif_host_test.go": "go/overlay_sio/sio_host_test.go"}}

TIMERS_RULE = ("scripted scenarios over three timer ids with delays of 10-120 ms: make / cancel requests from the requester, from inside "
               "the handler of a firing message (re-create the firing id, cancel-and-re-create, re-create-then-cancel), sleeps, reads of "
               "the pending set, a restart from the persisted timers state between creation and due time (sio), and dedicated "
               "cancel-racing-the-due-time scenarios; run in real time against both timer implementations (mcrew through a test file "
               "added with `go test -overlay`, sio through the crew and its timers machine).  The event log (request results, firings with "
               "timestamps, pending sets) is replayed on the transition system of Sheens/Timers.lean: it must be a trace of the model "
               "and the trace invariants must hold on it.  Non-trivial: a timer fired or a request succeeded.")

PROPS = {
    "C01": {
        "modules": ["Sheens.Props.C01", "Sheens.Props.MatchTotal", "Sheens.Props.TrMatch", "Sheens.Props.TrIneq", "Sheens.Props.TrMatchArms"],
        "theorems": ["Sheens.C01.match_sound", "Sheens.C01.Witness.sat", "Sheens.MatchTotal.satB_sound"],
        "facts": ["matcher_switches", "ineq_ops", "name_conventions"],
        "runs": {
            "quick": [("match", ["-profile", "c01", "-n", "30000", "-reps", "3"])],
            "thorough": [("match", ["-profile", "c01", "-n", "150000", "-reps", "4"]),
                         ("match", ["-profile", "c02", "-n", "60000", "-reps", "3"])],
        },
        "analyze": analyze_match(["sound"]),
        "rule": MATCH_RULE,
    },
    "C02": {
        "modules": ["Sheens.Props.C02", "Sheens.Props.C02Exact", "Sheens.Props.TrMatch", "Sheens.Props.TrIneq", "Sheens.Props.TrMatchArms"],
        "theorems": [],
        "facts": ["matcher_switches", "name_conventions"],
        "runs": {
            "quick": [("match", ["-profile", "c02", "-n", "30000", "-reps", "3"])],
            "thorough": [("match", ["-profile", "c02", "-n", "150000", "-reps", "4"])],
        },
        "analyze": analyze_match(["planted"]),
        "rule": MATCH_RULE,
    },
    "C03": {
        "modules": ["Sheens.Props.C03", "Sheens.Props.C03Linear", "Sheens.Props.C03Outcome", "Sheens.Props.TrMatch"],
        "theorems": [],
        "facts": ["match_copies_first", "copyBindingss_copies", "matcher_branches_copy", "matcher_writes_only_locals_and_bindings", "match_no_hidden_state"],
        "runs": {
            "quick": [("match", ["-profile", "c03", "-n", "8000", "-reps", "32"])],
            "thorough": [("match", ["-profile", "c03", "-n", "40000", "-reps", "64"]), ("match", ["-profile", "c03", "-n", "3000", "-reps", "8"], {"race": True})],
        },
        "analyze": analyze_match(["det", "probe"]),
        "rule": MATCH_RULE + "  Every case is evaluated repeatedly by the implementation (Go randomises map iteration) and the "
                "model is evaluated on every hereditary key-order permutation of the pattern; outcome sets are compared.",
    },
    "C04": {
        "modules": ["Sheens.Props.C04", "Sheens.Props.TrCore"],
        "theorems": [],
        "facts": ["engine_constants", "name_conventions"],
        "runs": {
            "quick": [("step", ["-profile", "step", "-n", "8000"]), ("walk", ["-profile", "walk", "-n", "5000"])],
            "thorough": [("step", ["-profile", "step", "-n", "40000"]), ("walk", ["-profile", "walk", "-n", "20000"]),
                         ("step", ["-profile", "failing", "-n", "20000"])],
        },
        "analyze": analyze_generic,
        "oracles": ["rule", "messageConsumes", "errSame", "firstFrom"],
        "probes": ["guardStopsAtFirstAccept"],
        "rule": ENGINE_RULE,
    },
    "C05": {
        "modules": ["Sheens.Props.C05"],
        "theorems": [],
        "facts": ["walk_accounting_sites"],
        "runs": {
            "quick": [("walk", ["-profile", "walk", "-n", "8000"]), ("split", ["-profile", "split", "-n", "3000"])],
            "thorough": [("walk", ["-profile", "walk", "-n", "50000"]), ("split", ["-profile", "split", "-n", "20000"])],
        },
        "analyze": analyze_generic,
        "oracles": ["prefix", "remainder", "bounded", "chain", "firstFrom", "quiescent"],
        "probes": ["splitEq", "consumesNonJSON"],
        "rule": ENGINE_RULE + "  Split runs: the whole batch in one Walk versus every generated split into consecutive batches.",
    },
    "C06": {
        "modules": ["Sheens.Props.C06", "Sheens.Props.C06Own"],
        "theorems": [],
        "facts": ["engine_writes_only_locals", "engine_mutators_on_fresh_maps", "step_returns_copies", "step_copy_sites", "walk_copy_sites", "match_copies_first", "copyBindingss_copies", "bindings_deep_copied", "core_no_hidden_state", "match_no_hidden_state"],
        "runs": {
            "quick": [("walk", ["-profile", "failing", "-n", "7000"]), ("step", ["-profile", "failing", "-n", "6000"])],
            "thorough": [("walk", ["-profile", "failing", "-n", "40000"]), ("step", ["-profile", "failing", "-n", "40000"]),
                         ("walk", ["-profile", "walk", "-n", "20000"])],
        },
        "analyze": analyze_generic,
        "oracles": [],
        "probes": ["untouched", "fresh", "repeatable"],
        "rule": ENGINE_RULE + "  Probes: deep snapshots of state, messages, spec (patterns, targets, settings), control and props before/after; pointer identity of every returned bindings map against the given one; two identical calls compared.",
    },
    "C07": {
        "modules": ["Sheens.Props.C07", "Sheens.Props.MatchTotal"],
        "theorems": [],
        "facts": ["walk_defaults_nil_control", "exec_writeback_guarded", "es_export_recovers"],
        "runs": {
            "quick": [("walk", ["-profile", "failing", "-n", "6000"]), ("step", ["-profile", "timeouts", "-n", "400"]),
                      ("match", ["-profile", "c03", "-n", "5000", "-reps", "2"]), ("compile", ["-n", "1000"]),
                      ("step", ["-profile", "failing", "-n", "4000"]), ("timeouts", ["-n", "40"])],
            "thorough": [("walk", ["-profile", "failing", "-n", "40000"]), ("step", ["-profile", "timeouts", "-n", "3000"]), ("timeouts", ["-n", "300"]),
                         ("step", ["-profile", "failing", "-n", "40000"]), ("match", ["-profile", "c03", "-n", "30000", "-reps", "2"]),
                         ("compile", ["-n", "6000"])],
        },
        "analyze": analyze_generic,
        "oracles": ["total", "errorSurfaced"],
        "probes": ["stopsWithError", "returns", "noPanic"],
        "rule": ENGINE_RULE,
    },
    "C08": {
        "modules": ["Sheens.Props.C08"],
        "theorems": [],
        "facts": ["es_error_exits_nil_exe", "es_every_error_exit_nil_exe", "try_adds_no_guard_events"],
        "runs": {
            "quick": [("walk", ["-profile", "failing", "-n", "7000"]), ("step", ["-profile", "failing", "-n", "5000"]),
                      ("crew", ["-profile", "crew", "-n", "1000"])],
            "thorough": [("walk", ["-profile", "failing", "-n", "50000"]), ("step", ["-profile", "failing", "-n", "30000"]),
                         ("crew", ["-profile", "crew", "-n", "10000"])],
        },
        "analyze": analyze_generic,
        "oracles": ["emitExact", "crewEmitExact"],
        "probes": [],
        "rule": ENGINE_RULE,
    },
    "C18": {
        "modules": ["Sheens.Props.C18", "Sheens.Props.C18Own", "Sheens.Props.TrCore"],
        "theorems": [],
        "facts": ["exec_writeback_guarded", "name_conventions", "engine_constants"],
        "runs": {
            "quick": [("walk", ["-profile", "permanent", "-n", "7000"]), ("step", ["-profile", "permanent", "-n", "6000"])],
            "thorough": [("walk", ["-profile", "permanent", "-n", "50000"]), ("step", ["-profile", "permanent", "-n", "30000"])],
        },
        "analyze": analyze_generic,
        "oracles": ["permanent", "total"],
        "probes": ["permanentInPlace"],
        "rule": ENGINE_RULE,
    },
    "C14": {
        "modules": ["Sheens.Props.C14"],
        "theorems": [],
        "facts": ["routing_sites", "crew_processmsg_skeleton"],
        "runs": {
            "quick": [("crew", ["-profile", "crew", "-n", "1500"]),
                      ("mcrewgen", ["-profile", "mcrew", "-n", "150"], {"overlay": MCREW_OVERLAY})],
            "thorough": [("crew", ["-profile", "crew", "-n", "15000"]),
                         ("mcrewgen", ["-profile", "mcrew", "-n", "1000"], {"overlay": MCREW_OVERLAY})],
        },
        "analyze": analyze_generic,
        "oracles": ["deliveredOnce"],
        "probes": ["bfsOrdered", "batchOrder", "servicesQuiet", "emissionsFedBackOnce", "emissionsReportedUnderStoreFault", "fedBackCount"],
        "rule": CREW_RULE,
    },
    "C15": {
        "modules": ["Sheens.Props.C15"],
        "theorems": [],
        "facts": ["crew_changes_skeleton", "crew_setmachine_skeleton", "crew_processmsg_skeleton"],
        "runs": {
            "quick": [("crew", ["-profile", "crew", "-n", "2000"]),
                      ("siohostgen", ["-n", "400"], {"overlay": SIO_HOST_OVERLAY})],
            "thorough": [("crew", ["-profile", "crew", "-n", "15000"]),
                         ("siohostgen", ["-n", "4000"], {"overlay": SIO_HOST_OVERLAY})],
        },
        "analyze": analyze_generic,
        "oracles": ["storeEqLive"],
        "probes": ["storeEqLive", "rebuildEquiv", "hostStoreEqLive", "hostFileEqLive", "hostRebuildEquiv", "hostResponsive", "noPanic"],
        "rule": CREW_RULE,
    },
    "C16": {
        "modules": ["Sheens.Props.C16", "Sheens.Props.C16Serial"],
        "theorems": [],
        "facts": ["mcrew_write_under_lock", "mcrew_write_before_memory"],
        "runs": {
            "quick": [("mcrewgen", ["-profile", "mcrew", "-n", "400"], {"overlay": MCREW_OVERLAY})],
            "thorough": [("mcrewgen", ["-profile", "mcrew", "-n", "1500"], {"overlay": MCREW_OVERLAY})],
        },
        "analyze": analyze_generic,
        "oracles": ["memEqStore", "failedIsNoop"],
        "probes": ["noLostUpdate", "readIsSnapshot"],
        "rule": MCREW_RULE,
    },
    "C17": {
        "modules": ["Sheens.Props.C17"],
        "theorems": [],
        "facts": ["timers_fire_by_identity"],
        "runs": {
            "quick": [("timersgen", ["-profile", "mcrew", "-n", "120"], {"overlay": MCREW_TIMERS_OVERLAY}),
                      ("siotimers", ["-n", "120"]), ("siotimers", ["-n", "40"], {"runner": c17_race_probe})],
            "thorough": [("timersgen", ["-profile", "mcrew", "-n", "1500"], {"overlay": MCREW_TIMERS_OVERLAY}),
                         ("siotimers", ["-n", "1500"]), ("siotimers", ["-n", "300"], {"runner": c17_race_probe})],
        },
        "analyze": analyze_generic,
        "oracles": ["logAccepted", "firedOnce", "neverEarly", "neverBoth", "tableIsPending", "tableLive", "noMissedFire", "responsive"],
        "confirm": c17_confirm,
        "probes": [],
        "rule": TIMERS_RULE,
    },
    "C19": {
        "modules": ["Sheens.Props.C19", "Sheens.Props.C19Exact"],
        "theorems": [],
        "facts": ["expect_run_skeleton"],
        "runs": {
            "quick": [("expect", ["-n", "800"])],
            "thorough": [("expect", ["-n", "6000"])],
        },
        "analyze": analyze_generic,
        "oracles": ["verdictSound", "noFalsePass"],
        "confirm": c19_confirm,
        "probes": [],
        "rule": ("sessions of 1-3 steps with 0-3 expected or inverted outputs each (patterns incl. variables, property variables and "
                 "array variables; ECMAScript guards that accept, reject by predicate or always reject) against scripted line streams "
                 "that mostly serve the expectations in order, with repeated messages, expected messages that never arrive, non-JSON "
                 "noise, unrelated messages, shuffles, and a subprocess that waits (timeout) or exits (EOF); run through the real "
                 "Session.Run with /verif/build/emitter as the subprocess, 16 sessions in parallel, 400 ms step timeout.  "
                 "Non-trivial: at least one JSON line."),
    },
    "C20": {
        "modules": ["Sheens.Props.C20"],
        "theorems": [],
        "facts": ["analyze_skeleton"],
        "runs": {
            "quick": [("tools", ["-n", "10000"])],
            "thorough": [("tools", ["-n", "40000"])],
        },
        "analyze": analyze_generic,
        "oracles": ["total", "analysisExact", "dotFaithful", "mermaidFaithful"],
        "probes": ["resultsIndependent"],
        "rule": ("random compiled spec graphs (the engine generator: <=5 nodes + optional error node, native and ECMAScript actions, "
                 "guards, missing, empty and @variable targets, nil and empty branch lists, unreachable nodes); Analyze, Dot and Mermaid "
                 "run on the compiled spec; analysis fields compared as sets/counts, rendered node declarations and edges parsed back "
                 "from the DOT / Mermaid text and compared with the model.  Non-trivial: more than one node."),
    },
    "C13": {
        "modules": ["Sheens.Props.C13"],
        "theorems": [],
        "facts": ["compile_skeleton", "parsepatterns_skeleton"],
        "runs": {
            "quick": [("compile", ["-n", "3000"])],
            "thorough": [("compile", ["-n", "10000"])],
        },
        "analyze": analyze_generic,
        "oracles": ["total", "modelIdempotent", "rejectsUnknown"],
        "probes": ["reprIndependent", "compileIdempotent", "reloadSame", "compileRetrySame"],
        "rule": ("specification documents derived from random spec graphs (ECMAScript action and guard sources): as they are, with "
                 "every pattern turned into JSON text under patternSyntax json, with bare string / bare variable patterns, and malformed "
                 "(null node, null branch, unknown interpreter, unknown branching type, unknown pattern syntax, broken source, broken "
                 "pattern text, no nodes).  Every document is compiled by the implementation and by the model (outcome class and compiled "
                 "structure compared); well-formed ones are additionally loaded as JSON, as YAML by the repository's loader and by the "
                 "sio crew's loader, with JSON-text patterns, compiled three times, and dumped and reloaded; all variants are walked over "
                 "three fixed message sequences and must behave identically.  Non-trivial: more than one node."),
    },
    "C09": {
        "modules": ["Sheens.Props.C09"],
        "theorems": [],
        "facts": [],
        "runs": {
            "quick": [("persist", ["-n", "2500"]), ("walk", ["-profile", "persist", "-n", "3000"]),
                      ("mcrewgen", ["-profile", "mcrew", "-n", "100"], {"overlay": MCREW_OVERLAY})],
            "thorough": [("persist", ["-n", "30000"]), ("walk", ["-profile", "persist", "-n", "10000"])],
        },
        "analyze": analyze_generic,
        "oracles": ["total"],
        "probes": ["persistUnobservable", "statePlain", "noPanic", "storeReloadPlain"],
        "rule": ENGINE_RULE + "  Persist runs: histories of 3-5 messages delivered one at a time; the same history is run with the state "
                "kept in memory, with a JSON write/read of the state at each single boundary, and at every boundary; per-message "
                "observations must be identical; every reached state is compared with its own JSON round trip type for type.",
    },
    "C10": {
        "modules": ["Sheens.Props.C10"],
        "theorems": [],
        "facts": ["runtime_is_per_exec", "bindings_deep_copied", "es_no_hidden_state"],
        "runs": {
            "quick": [("isolation", ["-n", "600"]), ("walk", ["-profile", "failing", "-n", "2000"]), ("step", ["-profile", "permanent", "-n", "1500"])],
            "thorough": [("isolation", ["-n", "3000"]), ("walk", ["-profile", "failing", "-n", "5000"]), ("isolation", ["-n", "400"], {"race": True})],
        },
        "analyze": analyze_generic,
        "oracles": [],
        "probes": ["bindingsUntouched", "laterExecutionPristine", "repeatPristine", "concurrentPristine", "propsUntouched", "propsNotShared", "untouched", "noPanic", "permanentInPlace"],
        "rule": ("polluter scripts (define globals, patch Object/Array/String prototypes, replace JSON/Math members and members of the "
                 "environment object, mutate their bindings in place at depth, delete bindings, mutate the step properties) followed by a "
                 "probe script that reports everything it can see, run sequentially on the same interpreter and concurrently from 16 "
                 "goroutines on the same compiled sources; the caller's bindings and props are snapshotted before and after.  "
                 "Non-trivial: every case."),
    },
    "C11": {
        "modules": ["Sheens.Props.C11"],
        "theorems": [],
        "facts": ["es_watcher", "es_error_exits_nil_exe", "es_export_recovers"],
        "runs": {
            "quick": [("timeouts", ["-n", "60"]), ("step", ["-profile", "timeouts", "-n", "150"])],
            "thorough": [("timeouts", ["-n", "600"]), ("step", ["-profile", "timeouts", "-n", "1500"])],
        },
        "analyze": analyze_generic,
        "oracles": ["total", "rule", "errSame"],
        "probes": ["stopsWithError", "prompt", "noGoroutineLeak", "nothingLeftUnderLiveContext", "timeoutRoutedAsActionError", "noPanic", "returns"],
        "rule": ("scripts whose time is spent in interpreted code (empty loop, unbounded recursion, array churn, property churn, nested "
                 "arithmetic loops) under deadlines from already expired to 200 ms, with cancellation at a random moment, 1-16 concurrent "
                 "executions; every execution must end with an error within the deadline plus a generous slack (1.5 s, to stay clear of "
                 "scheduling noise), the goroutine count must return to its baseline, and a step must route the timeout as an action "
                 "error.  Plus the engine correspondence on steps whose action or guard spins until the deadline."),
    },
    "C12": {
        "modules": ["Sheens.Props.C12"],
        "theorems": [],
        "facts": ["specter_atomic", "engine_writes_only_locals", "matcher_writes_only_locals_and_bindings", "core_no_hidden_state", "match_no_hidden_state"],
        "runs": {
            "quick": [("concurrent", ["-n", "1500"]), ("concurrent", ["-n", "60"], {"runner": race_probe("concurrent")})],
            "thorough": [("concurrent", ["-n", "4000"]), ("concurrent", ["-n", "600"], {"race": True})],
        },
        "analyze": analyze_generic,
        "oracles": [],
        "probes": ["concurrentSameAsAlone", "specUntouched", "specObjectsKept", "copyIndependent", "oneCompleteVersion", "noPanic", "dataRace"],
        "rule": ("two random compiled specs; 8 distinct machine states walked over the same spec object from 24 goroutines and compared "
                 "with the result each obtains alone; the same walks through an UpdatableSpec that another goroutine keeps swapping between "
                 "the two versions, each result compared with the results under either version.  The same probes are re-run in a -race build (a small run in the "
                 "quick tier, a larger one in the thorough tier); a reported race with a frame of the repository is a failing input."),
    },
}
