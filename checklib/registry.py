"""Per-property configuration: Lean modules and theorems, facts, harness runs, analysis."""
import json

# ---------------------------------------------------------------------------
# analysis hooks: (spec, res, input line, driver verdict)

def analyze_match(oracles):
    def f(spec, res, inp, ver):
        if not ver.get("corr", True):
            res.diffs.append((inp, ver))
        for o in oracles:
            if o == "probe":
                pr = inp.get("probe") or {}
                for k, v in pr.items():
                    if v is False:
                        res.failing.append(("probe:" + k, inp, ver))
            elif ver.get(o) is False:
                res.failing.append((o, inp, ver))
    return f


def analyze_generic(spec, res, inp, ver):
    """driver verdicts of the form {"corr":bool, "prop":{name:bool}, ...}"""
    if not ver.get("corr", True):
        res.diffs.append((inp, ver))
    for o, v in (ver.get("prop") or {}).items():
        if v is False and (spec.get("oracles") is None or o in spec["oracles"]):
            res.failing.append((o, inp, ver))
    for o, v in (inp.get("probe") or {}).items():
        if v is False and (spec.get("probes") is None or o in spec["probes"]):
            res.failing.append(("probe:" + o, inp, ver))


# ---------------------------------------------------------------------------
# signatures of known findings: (oracle, input, verdict) -> bool

def _has_repeated_structured_var(inp):
    """pattern uses one variable at two places and the message offers structured values there"""
    p = inp.get("p")
    counts = {}
    def walk(x):
        if isinstance(x, str):
            if x.startswith("?") and x != "?":
                counts[x] = counts.get(x, 0) + 1
        elif isinstance(x, list):
            for y in x:
                walk(y)
        elif isinstance(x, dict):
            for k, y in x.items():
                walk(k)
                walk(y)
    walk(p)
    return any(c > 1 for c in counts.values())


def _contains_struct(x):
    return isinstance(x, (list, dict))


def sig_c03_repeated_structured(oracle, inp, ver):
    # the model of the documented behaviour itself is order dependent on this input
    if oracle not in ("det", "probe:concurrent") or ver.get("modelDet") is not False or not ver.get("corr"):
        return False
    if not _has_repeated_structured_var(inp):
        return False
    # some result (or the message) binds the repeated variable to a structured value
    return "{" in json.dumps(inp.get("f")) or "[" in json.dumps(inp.get("f"))


def _invalid_pattern(p):
    """two variables directly in one array, or a variable key next to other keys"""
    if isinstance(p, list):
        vs = [x for x in p if isinstance(x, str) and x.startswith("?")]
        return len(vs) > 1 or any(_invalid_pattern(x) for x in p)
    if isinstance(p, dict):
        if len(p) > 1 and any(k.startswith("?") for k in p):
            return True
        return any(_invalid_pattern(v) for v in p.values())
    return False


def sig_c03_invalid_vs_nomatch(oracle, inp, ver):
    if oracle not in ("det", "probe:concurrent") or ver.get("modelDet") is not False or not ver.get("corr"):
        return False
    if not _invalid_pattern(inp.get("p")):
        return False
    outs = ver.get("go", [])
    return any(o.startswith("err:") for o in outs) or any(o.startswith("err:") for o in ver.get("model", []))


SIGNATURES = {
    "c03-repeated-variable-structured-values": sig_c03_repeated_structured,
    "c03-invalid-at-one-key-nonmatching-at-another": sig_c03_invalid_vs_nomatch,
}

# ---------------------------------------------------------------------------

MATCH_RULE = ("(pattern, message, bindings) triples built from a planted witness: a pattern in the supported fragment is "
              "generated together with an assignment and a message containing the instantiated pattern plus extra keys/elements; "
              "some messages are then perturbed, some variables pre-bound (consistently or not); a malformed stream leaves the "
              "fragment.  One PRNG (VERIF_SEED).  A case is non-trivial if it binds a variable or recurses into an array or map; "
              "distinct = distinct canonical (pattern, message, bindings) text.")

PROPS = {
    "C01": {
        "modules": ["Sheens.Props.C01"],
        "theorems": ["Sheens.C01.match_sound", "Sheens.C01.Witness.sat"],
        "facts": [],
        "runs": {
            "quick": [("match", ["-profile", "c01", "-n", "6000", "-reps", "3"])],
            "thorough": [("match", ["-profile", "c01", "-n", "150000", "-reps", "4"]),
                         ("match", ["-profile", "c02", "-n", "60000", "-reps", "3"])],
        },
        "analyze": analyze_match(["sound"]),
        "rule": MATCH_RULE,
    },
    "C02": {
        "modules": ["Sheens.Props.C02"],
        "theorems": [],
        "facts": [],
        "runs": {
            "quick": [("match", ["-profile", "c02", "-n", "6000", "-reps", "3"])],
            "thorough": [("match", ["-profile", "c02", "-n", "150000", "-reps", "4"])],
        },
        "analyze": analyze_match(["planted"]),
        "rule": MATCH_RULE,
    },
    "C03": {
        "modules": ["Sheens.Props.C03"],
        "theorems": [],
        "facts": [],
        "runs": {
            "quick": [("match", ["-profile", "c03", "-n", "3000", "-reps", "24"])],
            "thorough": [("match", ["-profile", "c03", "-n", "40000", "-reps", "64"])],
        },
        "analyze": analyze_match(["det", "probe"]),
        "rule": MATCH_RULE + "  Every case is evaluated repeatedly by the implementation (Go randomises map iteration) and the "
                "model is evaluated on every hereditary key-order permutation of the pattern; outcome sets are compared.",
    },
}
