#!/usr/bin/env python3
"""Run the checks against every seeded change: apply seeded/<id>/patch.diff to /repo, run the quick
check of every property the change breaks (meta.json "breaks"), undo it straight afterwards, and
record in meta.json which checks fired.  ./tools_seeded.py [id-prefix ...]"""
import json, os, subprocess, sys, glob
VERIF = os.path.dirname(os.path.abspath(__file__))
REPO = os.environ.get("VERIF_REPO", "/repo")
def sh(cmd, **kw):
    return subprocess.run(cmd, stdout=subprocess.PIPE, stderr=subprocess.STDOUT, text=True, **kw)
def main():
    want = sys.argv[1:]
    assert sh(["git", "-C", REPO, "status", "--porcelain"]).stdout.strip() == "", REPO + " is not clean"
    for d in sorted(glob.glob(os.path.join(VERIF, "seeded", "*"))):
        sid = os.path.basename(d)
        if want and not any(sid.startswith(w) for w in want):
            continue
        meta = json.load(open(os.path.join(d, "meta.json")))
        r = sh(["git", "-C", REPO, "apply", os.path.join(d, "patch.diff")])
        if r.returncode != 0:
            print(sid, "patch does not apply:", r.stdout[:200]); continue
        res = {}
        try:
            b = sh(["go", "build", "./..."], cwd=REPO, env=dict(os.environ, GOFLAGS="-mod=mod", GOPROXY="off", GOSUMDB="off", GOTOOLCHAIN="local"))
            if b.returncode != 0:
                print(sid, "does not build"); continue
            for pid in meta.get("breaks", []) + meta.get("also_run", []):
                c = sh([os.path.join(VERIF, "check"), pid], cwd=VERIF)
                line = [l for l in c.stdout.split("\n") if l.startswith("VIOLATION")]
                res[pid] = {"rc": c.returncode, "line": (line[0] if line else "")}
        finally:
            sh(["git", "-C", REPO, "checkout", "--", "."])
        key = "detected_by"
        if os.environ.get("VERIF_SEED", "1") != "1":
            key = "detected_by_seed" + os.environ["VERIF_SEED"]
        meta[key] = {p: ("failing-input" if r["rc"] == 1 and "no-failing-input-found" not in r["line"] else
                                   "obligation-broken" if r["rc"] == 1 else "MISSED") for p, r in res.items()}
        json.dump(meta, open(os.path.join(d, "meta.json"), "w"), indent=1)
        print(sid, meta[key])
    # evidence files were rewritten by runs on changed trees: restore them from git
    sh(["git", "-C", VERIF, "checkout", "--", "evidence"])
if __name__ == "__main__":
    main()
