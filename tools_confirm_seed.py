#!/usr/bin/env python3
"""Confirm a red-team change independently: in a scratch worktree of /repo (outside /repo and
/verif) check that (1) it applies, builds and passes the existing suite, (2) its demonstration
fails with it and (3) passes without it; then file it as /verif/seeded/<id>/.
usage: tools_confirm_seed.py <property> <src-dir-with-patch.diff+demo_test.go+README.md> <seed-id>"""
import json, os, re, shutil, subprocess, sys
ENV = dict(os.environ, GOFLAGS="-mod=mod", GOPROXY="off", GOSUMDB="off", GOTOOLCHAIN="local")
def sh(cmd, cwd=None, timeout=1200):
    return subprocess.run(cmd, cwd=cwd, env=ENV, stdout=subprocess.PIPE, stderr=subprocess.STDOUT, text=True, timeout=timeout)
def main():
    prop, src, sid = sys.argv[1], sys.argv[2], sys.argv[3]
    wt = "/tmp/seedchk-" + sid
    sh(["git", "-C", "/repo", "worktree", "remove", "--force", wt])
    r = sh(["git", "-C", "/repo", "worktree", "add", "-q", wt, "HEAD"])
    assert r.returncode == 0, r.stdout
    out = {"id": sid, "breaks": [prop], "kind": "independent sub-agent change written from the property text alone"}
    try:
        demofile = [f for f in sorted(os.listdir(src)) if f.endswith("_test.go")][0]
        demo = open(os.path.join(src, demofile)).read()
        pkg = re.search(r"^package (\w+)", demo, re.M).group(1)
        pkgdir = {"match": "match", "core": "core", "sio": "sio", "main": "cmd/mcrew", "tools": "tools", "expect": "tools/expect",
                  "ecmascript": "interpreters/ecmascript"}[pkg[:-5] if pkg.endswith("_test") else pkg]
        tests = re.findall(r"^func (Test\w+)\(", demo, re.M)
        run = "^(" + "|".join(tests) + ")$"
        r = sh(["git", "apply", os.path.join(src, "patch.diff")], cwd=wt)
        out["applies"] = r.returncode == 0
        r = sh(["go", "build", "./..."], cwd=wt)
        out["builds"] = r.returncode == 0
        r = sh(["go", "test", "-vet=off", "-count=1", "./..."], cwd=wt)
        out["suite_passes_with_change"] = r.returncode == 0
        shutil.copy(os.path.join(src, demofile), os.path.join(wt, pkgdir, "zz_demo_test.go"))
        r = sh(["go", "test", "-vet=off", "-count=1", "-run", run, "./" + pkgdir + "/"], cwd=wt)
        out["demo_fails_with_change"] = r.returncode != 0
        out["demo_output_with_change"] = r.stdout[-600:]
        sh(["git", "apply", "-R", os.path.join(src, "patch.diff")], cwd=wt)
        r = sh(["go", "test", "-vet=off", "-count=1", "-run", run, "./" + pkgdir + "/"], cwd=wt)
        out["demo_passes_without_change"] = r.returncode == 0
        out["what_i_ran"] = ["git apply patch.diff", "go build ./...", "go test -vet=off -count=1 ./...",
                             "cp demo_test.go %s/zz_demo_test.go; go test -run '%s' ./%s/" % (pkgdir, run, pkgdir),
                             "git apply -R patch.diff; same demo again"]
        out["demo_package"] = pkgdir
    finally:
        sh(["git", "-C", "/repo", "worktree", "remove", "--force", wt])
        shutil.rmtree(wt, ignore_errors=True)
    ok = all(out.get(k) for k in ("applies", "builds", "suite_passes_with_change", "demo_fails_with_change", "demo_passes_without_change"))
    out["confirmed"] = ok
    print(json.dumps({k: v for k, v in out.items() if k != "demo_output_with_change"}))
    if ok:
        d = os.path.join(os.path.dirname(os.path.abspath(__file__)), "seeded", sid)
        os.makedirs(d, exist_ok=True)
        for f, t in (("patch.diff", "patch.diff"), (demofile, "demo_test.go"), ("README.md", "README.md")):
            shutil.copy(os.path.join(src, f), os.path.join(d, t))
        readme = open(os.path.join(src, "README.md")).read()
        out["needs"] = " ".join(readme.split())[:600]
        json.dump(out, open(os.path.join(d, "meta.json"), "w"), indent=1)
if __name__ == "__main__":
    main()
