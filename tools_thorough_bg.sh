#!/bin/sh
# Run every check's thorough tier on the unchanged tree in a `vp run` snapshot (uses /repo itself,
# read-only).  Output: one line per property; details in thorough_<id>.log.
./setup.sh > setup.log 2>&1 || { echo "setup failed"; tail -20 setup.log; exit 1; }
for i in 01 02 03 04 05 06 07 08 09 10 11 12 13 14 15 16 17 18 19 20; do
  s=$(date +%s)
  ./check C$i --tier thorough > thorough_C$i.log 2>&1; rc=$?
  e=$(date +%s)
  echo "C$i rc=$rc $((e-s))s $(grep -c VIOLATION thorough_C$i.log) viol $(grep -c KNOWN-FINDING thorough_C$i.log) kf"
  grep VIOLATION thorough_C$i.log
done
