#!/usr/bin/env python3
"""Regenerate MANIFEST.json from the registry (claimed = has an entry in checklib/registry.py)."""
import json, sys, os
sys.path.insert(0, os.path.join(os.path.dirname(os.path.abspath(__file__)), "checklib"))
from registry import PROPS
from manifest_notes import NOTES, NOT_APPLICABLE, HOOKS
props = [json.loads(l) for l in open(os.path.join(os.path.dirname(os.path.abspath(__file__)), "properties.jsonl"))]
checks = []
for p in props:
    pid = p["id"]
    if pid not in PROPS:
        continue
    n = NOTES.get(pid, {})
    checks.append({
        "property_id": pid,
        "quick_cmd": "./check %s --tier quick" % pid,
        "thorough_cmd": "./check %s --tier thorough" % pid,
        "evidence_file": "/verif/evidence/%s.json" % pid,
        "replay_cmd_template": "./check %s --replay {path}" % pid,
        "engine": "lean4-model+correspondence",
        "level_claimed": {"category": "proof",
                          "text": n.get("text", "Lean 4 theorems about a hand-written executable model of the anchored code, tied to /repo on every run by a differential correspondence run and regenerated source facts"),
                          "design_ref": n.get("design_ref", "DESIGN.md section 7, " + pid)},
        "level_note": n.get("note", "trusted: Lean kernel; hand-written model tied to the code by correspondence (testing) and go/ast facts; see DESIGN.md section 9"),
        "technique": n.get("technique", "machine-checked proof in Lean 4 over a hand-written model + differential correspondence check"),
    })
m = {"version": 1,
     "setup_cmd": "./setup.sh",
     "hooks": HOOKS,
     "engines": [{"name": "lean4-model+correspondence", "path": "/verif/lean", "serves_properties": sorted(PROPS),
                  "kind_free_text": "Lean 4 library (models, specs, theorems) + compiled driver; Go harness /verif/go; python driver /verif/check"}],
     "checks": checks,
     "notes": "see DESIGN.md; known findings in known_findings.json",
     "not_applicable": [{"property_id": p["id"], "reason": NOT_APPLICABLE.get(p["id"], "not claimed yet: model and check under construction (planned design in DESIGN.md section 7)")}
                        for p in props if p["id"] not in PROPS]}
json.dump(m, open(os.path.join(os.path.dirname(os.path.abspath(__file__)), "MANIFEST.json"), "w"), indent=1)
print("claimed:", sorted(PROPS))
