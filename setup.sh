#!/bin/sh
# Build the framework from files on disk only (offline).
set -e
cd "$(dirname "$0")"
REPO="${VERIF_REPO:-/repo}"
export GOFLAGS=-mod=mod GOPROXY=off GOSUMDB=off GOTOOLCHAIN=local CGO_ENABLED=0
mkdir -p build evidence
(cd go && cp "$REPO/go.sum" . 2>/dev/null; go run ./factgen -repo "$REPO" -out ../lean/Sheens/Gen/Facts.lean; go run ./go2lean -repo "$REPO" -out ../lean/Sheens/Gen/GoAst.lean)
(cd lean && lake build Sheens driver Sheens.Props.FactsOK Sheens.Props.TrMatchArms Sheens.Props.TrCore)
(cd go && cp "$REPO/go.sum" . 2>/dev/null || true; go build -o ../build/harness ./cmd/harness && go build -o ../build/emitter ./cmd/emitter)
echo setup ok
